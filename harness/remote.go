package main

// Domain `remote` (C20): the real `task` binary against a loopback HTTP server owned by
// the harness, over sequences of (server state × flags × prompt answer).  Prompts are
// answered through a pseudo-terminal (Logger.Prompt wants stdin and stdout to be
// terminals); "none" runs with stdin closed and stdout on a pipe.

import (
	"bytes"
	"context"
	"crypto/ecdsa"
	"crypto/elliptic"
	"crypto/rand"
	"crypto/sha256"
	"crypto/tls"
	"crypto/x509"
	"crypto/x509/pkix"
	"encoding/json"
	"encoding/pem"
	"fmt"
	"io"
	"log"
	"math/big"
	"net"
	"net/http"
	"os"
	"os/exec"
	"path/filepath"
	"sort"
	"strings"
	"sync"
	"syscall"
	"time"
	"unsafe"
)

func init() {
	domains["remote"] = domain{runRemote,
		"a case is a sequence (≤5 quick, ≤8 thorough) of invocations of the task binary on a remote Taskfile served by loopback " +
			"servers the harness owns (plain http, TLS with a generated certificate handed over as SSL_CERT_FILE, and a listener that " +
			"accepts and never answers): per step the server serves version k / refuses (listeners closed) / resets / 404 / 500 / " +
			"HEAD-ok-GET-500 / foreign content type / stalls past --timeout 300ms (on HEAD or on GET) / (TLS URL) redirects to plain http " +
			"or to https; the flags --yes --download --offline --expiry 0|1h --insecure --timeout 300ms|10s --clear-cache vary, the cache " +
			"is aged by 2h, the prompt is answered y/yes/n/… through a pty or there is no terminal, root entrypoint or include; URLs: two " +
			"http paths, https on the plain port (always fails), three http URLs that differ from the first only in the query / letter " +
			"case / a doubled slash, https on the TLS port, a DIRECTORY-style URL /dd (HEAD 404 or octet-stream, the Taskfile under one " +
			"of three default names), its sibling /dd/inc.yml and /inc.yml (what './inc.yml' means from /dd/<name> and from /dd); before a " +
			"step the cache may be DAMAGED (the .yaml swapped for another version / truncated / removed) or TORN (the .checksum, " +
			".timestamp, .location of a killed approving invocation written without the .yaml), and the step itself may run under a " +
			"FILE-SIZE LIMIT (ulimit -f 1: the binary's own WriteChecksum / WriteTimestamp / WriteResolvedLocation succeed, its write of " +
			"the longer .yaml fails like on a full disk - a real failure between the cache writes); observed: exit code, which versions' " +
			"markers ran (trace file), cache files (content version, stored checksum, timestamp present, stored location) of every URL — " +
			"compared with Remote.invoke over the same sequence; plus the property monitor (a marker ran ⇒ that version was offered " +
			"under --yes or an accepted prompt at or before the step). Second stream (op remote.chain, 250 quick / 3000 thorough " +
			"sequences): CHAINS — A and B are two paths, two URLs of one path that differ only in the query, or (35%) the directory URL " +
			"/dd and /dd/inc.yml; A's content (number v+10k) includes B by a relative or an absolute reference ('./inc.yml' for /dd), rarely " +
			"itself (110) or nothing; A's probe calls B's; the server behaves independently for A and B, both are read under the ONE " +
			"--timeout, prompts answered per URL through the pty, A read online, --offline, with the server down, with a valid cache, " +
			"with damaged entries. Third stream (op remote.tree, 120 / 1500): TREES — A includes B and C (siblings: two goroutines, " +
			"promptMutex) or A includes B includes C (chain of three); three independent servers and answers; when several nodes fail " +
			"the exit status the binary reported is handed to the model as the environment's choice. Fourth (10 / 60): a GIT node whose " +
			"server never answers, under --timeout 300ms: must end (108 / 105 / 106), a hang is a verdict. " +
			"non-trivial = a step gets past the flag/scheme gate; distinct by model case line"}
}

type remStep struct {
	Age        int    `json:"age,omitempty"` // hours the cache is aged before the step (model dt)
	URL        int    `json:"url"`           // see remPaths: 0 http /aa, 1 http /bb, 2 https /aa (always fails), 3 /aa…?v=2, 4 /aa/taskfile.yml, 5 /aa//Taskfile.yml
	Via        string `json:"via"`           // root | include
	Yes        bool   `json:"yes,omitempty"`
	Download   bool   `json:"download,omitempty"`
	Offline    bool   `json:"offline,omitempty"`
	Insecure   bool   `json:"insecure,omitempty"`
	Expiry     int    `json:"expiry,omitempty"` // hours: 0 | 1
	ExpiryOmit bool   `json:"expiry_omit,omitempty"`
	Patient    bool   `json:"patient,omitempty"` // --timeout 10s instead of 300ms
	Clear      bool   `json:"clear,omitempty"`
	NoExp      bool   `json:"no_experiment,omitempty"`
	Server     string `json:"server"` // serve refuse reset 404 500 get500 ctype stall stallget
	V          int    `json:"v,omitempty"`
	Answer     string `json:"answer"` // accept | decline | none
	Text       string `json:"text,omitempty"`
	// chains (remCase.Chain): the content served for this step's URL is number V+10*Inc and includes
	// (Inc 1,3: URL 0; Inc 2,4: URL 1; 1,2 by a relative, 3,4 by an absolute reference) the other http URL,
	// for which the server behaves as Server2/V2 and whose prompt is answered Answer2/Text2
	// URL 7 (directory-style): which default Taskfile name answers (0 Taskfile.yml, 1 taskfile.yml, 2 Taskfile.yaml)
	// and what a HEAD on the directory URL itself gets ("" = 404, "ctype" = 200 with a foreign content type)
	DirName int    `json:"dir_name,omitempty"`
	DirHead string `json:"dir_head,omitempty"`
	// what happens to the cache files of URL PreURL before the step (after the ageing): "" nothing; "swap": the .yaml is
	// replaced by content number PreV of that URL; "trunc": … by an empty file; "rm": it is removed; "torn1": an invocation
	// that downloaded content PreV under --yes was killed after WriteChecksum (the harness writes that .checksum);
	// "torn2": … after WriteTimestamp; "torn3": … after WriteResolvedLocation
	Pre    string `json:"pre,omitempty"`
	PreURL int    `json:"pre_url,omitempty"`
	PreV   int    `json:"pre_v,omitempty"`
	// the binary runs under `ulimit -f 1` (512 bytes): WriteChecksum, WriteTimestamp and WriteResolvedLocation succeed, the
	// write of the (longer) .yaml fails like on a full disk — a REAL failure between the cache writes
	Limited bool `json:"limited,omitempty"`
	Inc     int    `json:"inc,omitempty"`
	Server2 string `json:"server2,omitempty"`
	V2      int    `json:"v2,omitempty"`
	Answer2 string `json:"answer2,omitempty"`
	Text2   string `json:"text2,omitempty"`
	// trees (remCase.Tree): the step reads A = URL 0; Inc 9: A includes B = URL 1 AND C = URL 3 (siblings, read
	// concurrently); Inc 4: A includes B only, and B's content (number V2+10*Inc2, Inc2 = 6) may include C — a chain
	// of three; the server behaves as Server2/V2 for B and as Server3/V3 for C, whose prompt is answered Answer3/Text3
	Inc2    int    `json:"inc2,omitempty"`
	Server3 string `json:"server3,omitempty"`
	V3      int    `json:"v3,omitempty"`
	Answer3 string `json:"answer3,omitempty"`
	Text3   string `json:"text3,omitempty"`
}

// the TLS listener logs every failed handshake (URL 2 never shows up there, but a binary that does not trust the
// certificate would): not to the harness's stderr
var remQuietLog = log.New(io.Discard, "", 0)

type remCase struct {
	Steps []remStep `json:"steps"`
	Chain bool      `json:"chain,omitempty"` // model op remote.chain; prompts answered per URL
	Tree  bool      `json:"tree,omitempty"`  // model op remote.tree: siblings and chains of three; prompts answered per URL
}

// URL ids (the model's abstract, pairwise distinct cache keys): 0 http /aa/Taskfile.yml, 1 http /bb/Taskfile.yml,
// 2 https /aa/Taskfile.yml on the plain-http port (TLS to a plain-http server: always fails), three URLs that differ from
// URL 0 only 3 in the query (?v=2), 4 in the letter case of the path, 5 in a doubled slash; 6 https /tt/Taskfile.yml on
// the TLS port (a real TLS server with a certificate the harness generates and hands to the binary as SSL_CERT_FILE),
// which serves, or redirects to plain http (/tr/Taskfile.yml on the http port) or to https (/ts/Taskfile.yml on the TLS
// port); 7 http /dd — a DIRECTORY-style URL: HEAD on it is 404 or a foreign content type, the Taskfile is under one of the
// default names /dd/Taskfile.yml | taskfile.yml | Taskfile.yaml (model URLs 10, 11, 12: locations, never cache keys);
// 8 http /dd/inc.yml — what `./inc.yml` in URL 7's Taskfile means; 9 http /inc.yml — what it means when resolved against
// /dd itself.  Every URL is served its own content (the marker names the URL), so two URLs sharing one cache entry, or an
// include resolved to the wrong file, show as foreign content.
const remURLs = 10
const remStallDelay = 1200 * time.Millisecond

// remGitURL, remGitProtoURL: the model ids of the git nodes (http://127.0.0.1:<blackhole>/r.git//Taskfile.yml and the same
// over the git protocol, git://…); not among the listed entries
const remGitURL = 16
const remGitProtoURL = 17

func remIsGit(u int) bool { return u == remGitURL || u == remGitProtoURL }

var remPaths = []string{"/aa/Taskfile.yml", "/bb/Taskfile.yml", "/aa/Taskfile.yml", "/aa/Taskfile.yml?v=2", "/aa/taskfile.yml", "/aa//Taskfile.yml",
	"/tt/Taskfile.yml", "/dd", "/dd/inc.yml", "/inc.yml"}

// remDirNames: the default names the directory URL 7 is served under (indices into taskfile.defaultTaskfiles)
var remDirNames = []string{"Taskfile.yml", "taskfile.yml", "Taskfile.yaml"}

// remHTTP: the URL ids the loopback servers answer
var remHTTP = []int{0, 1, 3, 4, 5, 6, 7, 8, 9}

// remIncTable: k = c/10 of a content number → (included URL, absolute reference?)
var remIncTable = map[int][2]int{1: {0, 0}, 2: {1, 0}, 3: {0, 1}, 4: {1, 1}, 5: {3, 0}, 6: {3, 1}, 7: {8, 0}, 8: {8, 1}}

const remMaxContent = 99

// remIncFor: the k of a content that includes URL `target` (0, 1, 3 or 8) by a relative or an absolute reference
func remIncFor(target int, abs bool) int {
	for k, e := range remIncTable {
		if e[0] == target && (e[1] == 1) == abs {
			return k
		}
	}
	return 0
}

// remOwner: which URL a request is for — exactly (`exact`), or as that URL with default Taskfile names appended to its
// path by RemoteExists (`owner`, the longest matching URL path); `name` = for a request directly under the directory URL 7
// the index of the default name asked for (-1: none of remDirNames); tls = the request came in over the TLS listener
func remOwner(r *http.Request, tls bool) (exact, owner, name int) {
	exact, owner, name = -1, -1, -1
	best := -1
	try := func(i int, p, q string) {
		if r.URL.RawQuery != q {
			return
		}
		if r.URL.Path == p {
			exact, owner, best = i, i, 1<<30
		} else if strings.HasPrefix(r.URL.Path, p+"/") && len(p) > best {
			owner, best = i, len(p)
		}
	}
	if tls {
		try(6, "/tt/Taskfile.yml", "")
		try(6, "/ts/Taskfile.yml", "")
		return
	}
	for _, i := range remHTTP {
		if i == 6 {
			continue
		}
		p, q, _ := strings.Cut(remPaths[i], "?")
		try(i, p, q)
	}
	try(6, "/tr/Taskfile.yml", "")
	if owner == 7 && exact < 0 {
		for j, n := range remDirNames {
			if r.URL.Path == "/dd/"+n {
				name = j
			}
		}
	}
	return
}

// remContent: content number c = v + 10k of URL u; k = 0 is the plain Taskfile; otherwise it includes the URL
// remIncTable[k] names (1,2,5,7 by a relative reference, 3,4,6,8 by an absolute one — needs the port); k = 7 is `./inc.yml`
// remPad: every Taskfile the harness serves starts with more than 512 bytes of comments, so that under `ulimit -f 1`
// the write of the .yaml fails (and what is left of it is not a Taskfile)
var remPad = strings.Repeat("# "+strings.Repeat("padding ", 7)+"\n", 10)

func remContent(u, c, port int) []byte {
	return append([]byte(remPad), remContentBody(u, c, port)...)
}

func remContentBody(u, c, port int) []byte {
	k := c / 10
	if k == 9 { // two remote includes (siblings): URL 1 and URL 3
		return []byte(fmt.Sprintf("version: '3'\nsilent: true\nincludes:\n  b: http://127.0.0.1:%d%s\n  c: http://127.0.0.1:%d%s\ntasks:\n  probe:\n    cmds:\n      - echo u%dv%d >> \"$VERIF_TRACE\"\n      - task: b:probe\n      - task: c:probe\n",
			port, remPaths[1], port, remPaths[3], u, c))
	}
	inc, ok := remIncTable[k]
	if !ok {
		return []byte(fmt.Sprintf("version: '3'\nsilent: true\ntasks:\n  probe:\n    cmds:\n      - echo u%dv%d >> \"$VERIF_TRACE\"\n", u, c))
	}
	target := inc[0]
	ref := "../" + strings.TrimPrefix(remPaths[target], "/")
	if k == 7 {
		ref = "./inc.yml"
	}
	if inc[1] == 1 {
		ref = fmt.Sprintf("http://127.0.0.1:%d%s", port, remPaths[target])
	}
	return []byte(fmt.Sprintf("version: '3'\nsilent: true\nincludes:\n  b: %s\ntasks:\n  probe:\n    cmds:\n      - echo u%dv%d >> \"$VERIF_TRACE\"\n      - task: b:probe\n",
		ref, u, c))
}

// remIncTarget: the URL that content number c includes (-1: none)
func remIncTarget(c int) int {
	if e, ok := remIncTable[c/10]; ok {
		return e[0]
	}
	return -1
}

func sha256hex(b []byte) string { return fmt.Sprintf("%x", sha256.Sum256(b)) }

// ---- normalisation shared by the case line and the CLI invocation

func (s remStep) norm() remStep {
	if s.NoExp { // the remote flags do not exist without the experiment
		s.Download, s.Offline, s.Clear, s.Expiry, s.ExpiryOmit, s.Patient = false, false, false, 0, true, true
	}
	if s.Expiry != 0 {
		s.Expiry, s.ExpiryOmit = 1, false
	}
	if s.Age != 0 {
		s.Age = 2
	}
	if (s.URL < 0 || s.URL >= remURLs) && !remIsGit(s.URL) {
		s.URL = 0
	}
	if s.V < 1 {
		s.V = 1
	}
	if s.URL != 6 && (s.Server == "redirect" || s.Server == "redirects") { // only the TLS server redirects
		s.Server = "serve"
	}
	if s.URL != 7 {
		s.DirName, s.DirHead = 0, ""
	} else {
		if s.DirName < 0 || s.DirName >= len(remDirNames) {
			s.DirName = 0
		}
		if s.DirHead != "ctype" {
			s.DirHead = ""
		}
	}
	if remIsGit(s.URL) { // a git node: the harness has no git server, only a listener that never answers
		s.Via, s.Inc, s.Pre, s.Age, s.Patient, s.Clear, s.Download, s.Server2 = "root", 0, "", 0, false, false, false, ""
		s.Server = "stall"
	}
	if remIsGit(s.URL) || s.Server2 != "" {
		s.Limited = false
	}
	switch s.Pre {
	case "swap", "torn1", "torn2", "torn3":
		if s.PreV < 1 || s.PreV > remMaxContent || s.PreV%10 == 0 {
			s.PreV = 1
		}
	case "trunc", "rm":
		s.PreV = 0
	default:
		s.Pre, s.PreV, s.PreURL = "", 0, 0
	}
	if s.PreURL < 0 || s.PreURL >= remURLs || s.PreURL == 2 {
		s.PreURL = 0
	}
	if s.Pre == "torn3" && s.PreURL == 7 { // the location the killed invocation stored is the URL itself: not for the directory URL
		s.Pre = "torn2"
	}
	if s.Via != "include" {
		s.Via = "root"
	}
	switch s.Answer {
	case "accept":
		if s.Text == "" {
			s.Text = "y"
		}
	case "decline":
	default:
		s.Answer = "none"
	}
	if s.Server3 != "" { // a tree step: reads A = URL 0
		s.URL, s.DirName, s.DirHead = 0, 0, ""
		if s.Inc != 0 && s.Inc != 3 && s.Inc != 4 && s.Inc != 9 {
			s.Inc = 9
		}
		if s.Inc2 != 6 || s.Inc != 4 { // B includes C only in a chain (no diamonds)
			s.Inc2 = 0
		}
		if s.Server2 == "" {
			s.Server2 = "serve"
		}
		if s.V3 < 1 {
			s.V3 = 1
		}
		if s.Server == "refuse" {
			s.Server3 = "refuse"
		} else if s.Server3 == "refuse" {
			s.Server3 = "reset"
		}
		switch {
		case s.Answer != "accept" && s.Answer != "decline":
			s.Answer3, s.Text3 = "none", ""
		case s.Answer3 == "accept":
			if s.Text3 == "" {
				s.Text3 = "y"
			}
		default:
			s.Answer3 = "decline"
		}
	} else {
		s.Inc2, s.V3, s.Answer3, s.Text3 = 0, 0, "", ""
		if _, ok := remIncTable[s.Inc]; !ok {
			s.Inc = 0
		}
	}
	if s.Server2 != "" {
		if s.V2 < 1 {
			s.V2 = 1
		}
		// the listener is closed for every URL or for none
		if s.Server == "refuse" {
			s.Server2 = "refuse"
		} else if s.Server2 == "refuse" {
			s.Server2 = "reset"
		}
		// there is a terminal for both prompts or for none
		switch {
		case s.Answer == "none":
			s.Answer2, s.Text2 = "none", ""
		case s.Answer2 == "accept":
			if s.Text2 == "" {
				s.Text2 = "y"
			}
		default:
			s.Answer2 = "decline"
		}
	}
	return s
}

func (s remStep) stalls() bool  { return s.Server == "stall" || s.Server == "stallget" }
func (s remStep) stalls2() bool {
	return s.Server2 == "stall" || s.Server2 == "stallget" || s.Server3 == "stall" || s.Server3 == "stallget"
}

// c1: the content number the server offers for the step's own URL
func (s remStep) c1() int { return s.V + 10*s.Inc }

// cu: index of the http path of a URL (URL 2 is https on path 0)
func remCu(u int) int {
	if u == 2 {
		return 0
	}
	return u
}

// remServerTok: the model's server token for URL u behaving as `kind` with content number c
func remServerTok(u int, kind string, c int, s remStep) string {
	base := "f0"
	switch kind {
	case "serve", "redirect", "redirects":
		base = fmt.Sprintf("s%d", c)
	case "stall", "stallget":
		base = fmt.Sprintf("w%d", c)
	case "refuse", "reset":
		base = "f0"
	case "404", "500":
		base = "f1"
	case "ctype": // a foreign content type on HEAD: not a Taskfile, and no default name under it answers
		base = "f1"
		if u == 7 { // … but the content type of a default name under a directory URL is not looked at
			base = fmt.Sprintf("s%d", c)
		}
	case "get500":
		base = "f2"
	}
	switch {
	case u == 2: // TLS handshake with a plain-http server (or no server): the fetch fails
		return "f0"
	case remIsGit(u): // the clone never gets an answer
		return base
	case u == 6 && kind == "redirect":
		return "r13.0:" + base
	case u == 6 && kind == "redirects":
		return "r14.1:" + base
	case u == 7:
		return fmt.Sprintf("d%d.0:%s", 10+s.DirName, base)
	}
	return base
}

func remHTTPS(u int) bool { return u == 2 || u == 6 }

// remCaseLine: the line for the model driver; `picks` (trees only) = per step the exit status the binary ended with —
// when several siblings fail, errgroup reports the one that failed first in real time: the environment's choice
func remCaseLine(d remCase, picks []int) string {
	var sb strings.Builder
	op := "remote.run"
	if d.Chain {
		op = "remote.chain"
	}
	if d.Tree {
		op = "remote.tree"
	}
	fmt.Fprintf(&sb, "%s %d %d", op, remURLs, len(d.Steps))
	answers := map[string]int{"accept": 0, "decline": 1, "none": 2}
	pres := map[string]int{"": 0, "swap": 1, "trunc": 1, "rm": 2, "torn1": 3, "torn2": 4, "torn3": 5}
	for i, s := range d.Steps {
		s = s.norm()
		fmt.Fprintf(&sb, " %d %d %s %s %s %s %s %d %s %s %s %s %d", s.Age, s.URL, b2s(remHTTPS(s.URL)),
			b2s(s.Yes), b2s(s.Download), b2s(s.Offline), b2s(s.Insecure), s.Expiry, b2s(s.Patient), b2s(s.Clear),
			b2s(!s.NoExp), remServerTok(s.URL, s.Server, s.c1(), s), answers[s.Answer])
		if d.Chain {
			k2, v2, a2 := s.Server2, s.V2, s.Answer2
			if k2 == "" { // a step without an own description of node 2: the server treats every URL alike
				k2, v2, a2 = s.Server, s.V, s.Answer
				if a2 != "none" {
					a2 = "decline"
				}
			}
			// node 2 is one of the plain URLs (0, 1, 3, 8): its token does not depend on which
			fmt.Fprintf(&sb, " %s %d", remServerTok(0, k2, v2, s), answers[a2])
		}
		if d.Tree {
			pick := 0
			if i < len(picks) {
				pick = picks[i]
			}
			fmt.Fprintf(&sb, " %s %d %s %d %d", remServerTok(1, s.Server2, s.V2+10*s.Inc2, s), answers[s.Answer2],
				remServerTok(3, s.Server3, s.V3, s), answers[s.Answer3], pick)
		}
		fmt.Fprintf(&sb, " %d %d %d %s", pres[s.Pre], s.PreURL, s.PreV, b2s(s.Limited))
	}
	return sb.String()
}

// ---- the loopback servers

// remListener: one port of the sequence's server.  While it is closed ("refuse") a socket bound to the port but not
// listening keeps the port: connections are refused, and no other sequence's server — they run in parallel and ask the
// kernel for any free port — can be given the port while this sequence believes nobody listens there.
type remListener struct {
	srv  *http.Server
	port int
	resv int // 0 = none
	tls  *tls.Config
}

type remServer struct {
	mu    sync.Mutex
	plain remListener
	tls   remListener
	hole  net.Listener // accepts and never answers (the git node's server)
	state remStep
	port  int // = plain.port
}

// remCert: the self-signed certificate of every sequence's TLS listener (127.0.0.1), made once per harness process; its
// PEM file is what the task binary gets as SSL_CERT_FILE
var remCert struct {
	once sync.Once
	cfg  *tls.Config
	file string
	err  error
}

func remTLSConfig() (*tls.Config, string, error) {
	remCert.once.Do(func() {
		key, err := ecdsa.GenerateKey(elliptic.P256(), rand.Reader)
		if err != nil {
			remCert.err = err
			return
		}
		tmpl := &x509.Certificate{SerialNumber: big.NewInt(1), Subject: pkix.Name{CommonName: "verif loopback"},
			NotBefore: time.Now().Add(-time.Hour), NotAfter: time.Now().Add(48 * time.Hour),
			KeyUsage: x509.KeyUsageDigitalSignature | x509.KeyUsageCertSign, ExtKeyUsage: []x509.ExtKeyUsage{x509.ExtKeyUsageServerAuth},
			BasicConstraintsValid: true, IsCA: true, IPAddresses: []net.IP{net.ParseIP("127.0.0.1")}}
		der, err := x509.CreateCertificate(rand.Reader, tmpl, tmpl, &key.PublicKey, key)
		if err != nil {
			remCert.err = err
			return
		}
		base := os.Getenv("VERIF_SCRATCH")
		if base == "" {
			base = os.TempDir()
		}
		os.MkdirAll(filepath.Join(base, "remote"), 0o755)
		remCert.file = filepath.Join(base, "remote", fmt.Sprintf("cert-%d.pem", os.Getpid()))
		if err := os.WriteFile(remCert.file, pem.EncodeToMemory(&pem.Block{Type: "CERTIFICATE", Bytes: der}), 0o644); err != nil {
			remCert.err = err
			return
		}
		remCert.cfg = &tls.Config{Certificates: []tls.Certificate{{Certificate: [][]byte{der}, PrivateKey: key}}}
	})
	return remCert.cfg, remCert.file, remCert.err
}

func (rs *remServer) handler(overTLS bool) http.HandlerFunc {
	return func(w http.ResponseWriter, r *http.Request) {
		rs.mu.Lock()
		st := rs.state
		port, tport := rs.plain.port, rs.tls.port
		rs.mu.Unlock()
		u, owner, name := remOwner(r, overTLS)
		// which node of the step is asked for: the step's own URL (content V+10*Inc, behaviour Server), or —
		// when the step describes a second node — another URL (content V2, behaviour Server2)
		kind, cn := st.Server, st.c1()
		if st.Server2 != "" && owner >= 0 && owner != remCu(st.URL) {
			kind, cn = st.Server2, st.V2
		}
		if st.Server3 != "" { // a tree: A = URL 0, B = URL 1, C = URL 3
			switch owner {
			case 1:
				kind, cn = st.Server2, st.V2+10*st.Inc2
			case 3:
				kind, cn = st.Server3, st.V3
			}
		}
		if owner == 7 {
			switch {
			case u == 7: // the directory URL itself: never a Taskfile
				if st.DirHead == "ctype" {
					w.Header().Set("Content-Type", "application/octet-stream")
					w.WriteHeader(200)
					if r.Method != "HEAD" {
						w.Write([]byte("not a Taskfile\n"))
					}
				} else {
					http.NotFound(w, r)
				}
				return
			case name == st.DirName: // the default name that answers: behaves as the step says
				u = 7
			default:
				http.NotFound(w, r)
				return
			}
		}
		if u == 6 && r.URL.Path == "/tt/Taskfile.yml" {
			switch kind {
			case "redirect":
				http.Redirect(w, r, fmt.Sprintf("http://127.0.0.1:%d/tr/Taskfile.yml", port), http.StatusFound)
				return
			case "redirects":
				http.Redirect(w, r, fmt.Sprintf("https://127.0.0.1:%d/ts/Taskfile.yml", tport), http.StatusFound)
				return
			}
		}
		if u == 6 && r.URL.Path != "/tt/Taskfile.yml" { // the target of a redirect: just serves
			kind = "serve"
		}
		serve := func(ctype string) {
			if u < 0 {
				http.NotFound(w, r)
				return
			}
			w.Header().Set("Content-Type", ctype)
			w.WriteHeader(200)
			if r.Method != "HEAD" {
				w.Write(remContent(u, cn, port))
			}
		}
		wait := func() {
			t := time.NewTimer(remStallDelay)
			defer t.Stop()
			select {
			case <-r.Context().Done():
			case <-t.C:
			}
		}
		switch kind {
		case "serve", "redirect", "redirects":
			serve("text/yaml")
		case "404":
			http.NotFound(w, r)
		case "500":
			http.Error(w, "boom", 500)
		case "get500":
			if r.Method == "HEAD" {
				serve("text/yaml")
			} else {
				http.Error(w, "boom", 500)
			}
		case "ctype":
			serve("application/octet-stream")
		case "stall":
			wait()
			serve("text/yaml")
		case "stallget":
			if r.Method != "HEAD" {
				wait()
			}
			serve("text/yaml")
		case "reset":
			if hj, ok := w.(http.Hijacker); ok {
				if conn, _, err := hj.Hijack(); err == nil {
					if tc, ok := conn.(*net.TCPConn); ok {
						tc.SetLinger(0)
					}
					conn.Close()
					return
				}
			}
			http.Error(w, "boom", 500)
		default:
			http.Error(w, "boom", 500)
		}
	}
}

func (l *remListener) reserve() {
	if l.port == 0 || l.resv != 0 {
		return
	}
	for i := 0; i < 40; i++ {
		fd, err := syscall.Socket(syscall.AF_INET, syscall.SOCK_STREAM, 0)
		if err != nil {
			return
		}
		syscall.SetsockoptInt(fd, syscall.SOL_SOCKET, syscall.SO_REUSEADDR, 1)
		if err = syscall.Bind(fd, &syscall.SockaddrInet4{Port: l.port, Addr: [4]byte{127, 0, 0, 1}}); err == nil {
			l.resv = fd
			return
		}
		syscall.Close(fd)
		time.Sleep(5 * time.Millisecond)
	}
}

func (l *remListener) release() {
	if l.resv != 0 {
		syscall.Close(l.resv)
		l.resv = 0
	}
}

func (l *remListener) listen(h http.Handler) error {
	l.release()
	addr := fmt.Sprintf("127.0.0.1:%d", l.port)
	var ln net.Listener
	var err error
	for i := 0; i < 40; i++ {
		ln, err = net.Listen("tcp", addr)
		if err == nil {
			break
		}
		time.Sleep(15 * time.Millisecond)
	}
	if err != nil {
		return err
	}
	l.port = ln.Addr().(*net.TCPAddr).Port
	// HTTP/1.1 only (a non-nil empty TLSNextProto): "reset" hijacks the connection, which HTTP/2 cannot
	l.srv = &http.Server{Handler: h, TLSConfig: l.tls, ErrorLog: remQuietLog,
		TLSNextProto: map[string]func(*http.Server, *tls.Conn, http.Handler){}}
	if l.tls != nil {
		go l.srv.ServeTLS(ln, "", "")
	} else {
		go l.srv.Serve(ln)
	}
	return nil
}

func (l *remListener) close() {
	if l.srv != nil {
		l.srv.Close()
		l.srv = nil
		l.reserve()
	}
}

func (rs *remServer) listen() error {
	cfg, _, err := remTLSConfig()
	if err != nil {
		return err
	}
	rs.mu.Lock()
	defer rs.mu.Unlock()
	rs.tls.tls = cfg
	if err := rs.plain.listen(rs.handler(false)); err != nil {
		return err
	}
	if err := rs.tls.listen(rs.handler(true)); err != nil {
		return err
	}
	rs.port = rs.plain.port
	if rs.hole == nil {
		ln, err := net.Listen("tcp", "127.0.0.1:0")
		if err != nil {
			return err
		}
		rs.hole = ln
		go func() {
			var held []net.Conn // accepted, never answered, closed with the listener
			defer func() {
				for _, c := range held {
					c.Close()
				}
			}()
			for {
				c, err := ln.Accept()
				if err != nil {
					return
				}
				held = append(held, c)
			}
		}()
	}
	return nil
}

func (rs *remServer) listening() bool { return rs.plain.srv != nil }

func (rs *remServer) close() {
	rs.plain.close()
	rs.tls.close()
}

func (rs *remServer) shutdown() {
	rs.close()
	rs.plain.release()
	rs.tls.release()
	if rs.hole != nil {
		rs.hole.Close()
	}
}

// ---- pty

func openPty() (master, slave *os.File, err error) {
	master, err = os.OpenFile("/dev/ptmx", os.O_RDWR|syscall.O_NOCTTY, 0)
	if err != nil {
		return nil, nil, err
	}
	var n uint32
	var unlock int32
	if _, _, e := syscall.Syscall(syscall.SYS_IOCTL, master.Fd(), syscall.TIOCGPTN, uintptr(unsafe.Pointer(&n))); e != 0 {
		master.Close()
		return nil, nil, e
	}
	if _, _, e := syscall.Syscall(syscall.SYS_IOCTL, master.Fd(), syscall.TIOCSPTLCK, uintptr(unsafe.Pointer(&unlock))); e != 0 {
		master.Close()
		return nil, nil, e
	}
	slave, err = os.OpenFile(fmt.Sprintf("/dev/pts/%d", n), os.O_RDWR|syscall.O_NOCTTY, 0)
	if err != nil {
		master.Close()
		return nil, nil, err
	}
	return master, slave, nil
}

var (
	ptyOnce sync.Once
	ptyOK   bool
)

func havePty() bool {
	ptyOnce.Do(func() {
		m, s, err := openPty()
		if err == nil {
			m.Close()
			s.Close()
			ptyOK = true
		}
	})
	return ptyOK
}

// ---- one sequence on the real binary

type remRun struct {
	dir, cache, proj, trace string
	srv                     *remServer
	urls                    [remURLs]string
	keys                    [remURLs]string // sha256(url): part of every cache file name of that url
	gitURL                  string
	certFile                string
}

// cacheFile: the path of a cache file of URL u (`HTTPNode.CacheKey`: a readable prefix and the SHA-256 of the URL)
func (rr *remRun) cacheFile(u int, suffix string) string {
	dir, filename := filepath.Split(rr.urls[u])
	lastDir := filepath.Base(dir)
	prefix := filename
	if len(lastDir) > 1 {
		prefix = lastDir + "-" + filename
	}
	return filepath.Join(rr.cache, "remote", fmt.Sprintf("%s.%s.%s", prefix, rr.keys[u], suffix))
}

// applyPre: what happens to the cache files of URL s.PreURL before the step
func (rr *remRun) applyPre(s remStep) error {
	if s.Pre == "" {
		return nil
	}
	u := s.PreURL
	os.MkdirAll(filepath.Join(rr.cache, "remote"), 0o755)
	content := remContent(remCu(u), s.PreV, rr.srv.port)
	switch s.Pre {
	case "swap":
		return os.WriteFile(rr.cacheFile(u, "yaml"), content, 0o644)
	case "trunc":
		return os.WriteFile(rr.cacheFile(u, "yaml"), nil, 0o644)
	case "rm":
		os.Remove(rr.cacheFile(u, "yaml"))
		return nil
	case "torn1", "torn2", "torn3":
		if err := os.WriteFile(rr.cacheFile(u, "checksum"), []byte(sha256hex(content)), 0o644); err != nil {
			return err
		}
		if s.Pre != "torn1" {
			if err := os.WriteFile(rr.cacheFile(u, "timestamp"), []byte(time.Now().UTC().Format(time.RFC3339)), 0o644); err != nil {
				return err
			}
		}
		if s.Pre == "torn3" {
			return os.WriteFile(rr.cacheFile(u, "location"), []byte(rr.urls[u]), 0o644)
		}
	}
	return nil
}

type errInconclusive struct{ why string }

func (e errInconclusive) Error() string { return e.why }

// promptResponder answers the trust prompts of one invocation as they appear on the pty: each
// `… Taskfile at "<url>" … Continue? [y/N]: ` gets the text chosen for that URL (an unknown URL: an
// empty line, i.e. "no")
type promptResponder struct {
	master  *os.File
	texts   map[string]string
	seen    int // bytes of output already scanned
	Prompts []string
}

func (pr *promptResponder) feed(all string) {
	const mark = "[y/N]: "
	for {
		i := strings.Index(all[pr.seen:], mark)
		if i < 0 {
			return
		}
		seg := all[:pr.seen+i]
		pr.seen += i + len(mark)
		url := ""
		if j := strings.LastIndex(seg, "Taskfile at \""); j >= 0 {
			rest := seg[j+len("Taskfile at \""):]
			if k := strings.Index(rest, "\""); k >= 0 {
				url = rest[:k]
			}
		}
		pr.Prompts = append(pr.Prompts, url)
		pr.master.Write([]byte(pr.texts[url] + "\n"))
	}
}

func (rr *remRun) runCLI(s remStep, chain bool) (exit int, out string, err error) {
	bin := os.Getenv("VERIF_TASK_BIN")
	var args []string
	switch {
	case s.URL == remGitURL:
		args = append(args, "-t", rr.gitURL, "probe")
	case s.URL == remGitProtoURL:
		args = append(args, "-t", strings.Replace(rr.gitURL, "http://", "git://", 1), "probe")
	case s.Via == "include":
		args = append(args, "-t", fmt.Sprintf("inc%d.yml", s.URL), "r:probe")
	default:
		args = append(args, "-t", rr.urls[s.URL], "probe")
	}
	args = append(args, "-v")
	if s.Insecure {
		args = append(args, "--insecure")
	}
	if s.Yes {
		args = append(args, "--yes")
	}
	if !s.NoExp {
		if s.Download {
			args = append(args, "--download")
		}
		if s.Offline {
			args = append(args, "--offline")
		}
		if s.Clear {
			args = append(args, "--clear-cache")
		}
		if s.Expiry == 1 {
			args = append(args, "--expiry", "1h")
		} else if !s.ExpiryOmit {
			args = append(args, "--expiry", "0s")
		}
		if s.Patient {
			args = append(args, "--timeout", "10s")
		} else {
			args = append(args, "--timeout", "300ms")
		}
	}
	limit := 40 * time.Second
	if remIsGit(s.URL) { // a git node that ignores --timeout never returns: that is a verdict, not a flake
		limit = 5 * time.Second
	}
	ctx, cancel := context.WithTimeout(context.Background(), limit)
	defer cancel()
	cmd := exec.CommandContext(ctx, bin, args...) // cancelled by Process.Kill (SIGKILL)
	if s.Limited {
		cmd = exec.CommandContext(ctx, "/bin/sh", append([]string{"-c", `ulimit -f 1 && exec "$0" "$@"`, bin}, args...)...)
	}
	cmd.Dir = rr.proj
	cmd.Env = []string{"PATH=" + os.Getenv("PATH"), "HOME=" + filepath.Join(rr.dir, "home"), "NO_COLOR=1",
		"TASK_REMOTE_DIR=" + rr.cache, "VERIF_TRACE=" + rr.trace, "SSL_CERT_FILE=" + rr.certFile}
	if !s.NoExp {
		cmd.Env = append(cmd.Env, "TASK_X_REMOTE_TASKFILES=1")
	}
	var buf bytes.Buffer
	var mu sync.Mutex
	w := &lockedWriter{&mu, &buf}
	cmd.Stderr = w
	var master *os.File
	done := make(chan struct{})
	if s.Answer == "none" {
		cmd.Stdin = nil
		cmd.Stdout = w
		close(done)
	} else if chain {
		// chains: up to two prompts, in an order that depends on the cache — answered by URL as they appear
		m, sl, e := openPty()
		if e != nil {
			return 0, "", errInconclusive{"no pty: " + e.Error()}
		}
		master = m
		cmd.Stdin, cmd.Stdout = sl, sl
		if e := cmd.Start(); e != nil {
			master.Close()
			sl.Close()
			return 0, "", e
		}
		sl.Close()
		pr := &promptResponder{master: m, texts: map[string]string{}}
		if s.URL < remURLs {
			pr.texts[rr.urls[s.URL]] = s.Text
		}
		for _, o := range remHTTP {
			if o != remCu(s.URL) {
				pr.texts[rr.urls[o]] = s.Text2
			}
		}
		if s.Server3 != "" { // a tree: C's prompt has its own answer
			pr.texts[rr.urls[3]] = s.Text3
		}
		go func() {
			b := make([]byte, 4096)
			var ptyOut strings.Builder // what came over the pty alone (stderr goes to a pipe)
			for {
				n, e := m.Read(b)
				if n > 0 {
					w.Write(b[:n])
					ptyOut.Write(b[:n])
					pr.feed(ptyOut.String())
				}
				if e != nil {
					break
				}
			}
			close(done)
		}()
	} else {
		m, sl, e := openPty()
		if e != nil {
			return 0, "", errInconclusive{"no pty: " + e.Error()}
		}
		master = m
		cmd.Stdin, cmd.Stdout = sl, sl
		// the answer is typed ahead; the line discipline keeps it until the prompt reads it
		if _, e := master.Write([]byte(s.Text + "\n")); e != nil {
			master.Close()
			sl.Close()
			return 0, "", errInconclusive{"pty write: " + e.Error()}
		}
		if e := cmd.Start(); e != nil {
			master.Close()
			sl.Close()
			return 0, "", e
		}
		sl.Close()
		go func() { io.Copy(w, master); close(done) }()
	}
	if master == nil {
		if e := cmd.Start(); e != nil {
			return 0, "", e
		}
	}
	werr := cmd.Wait()
	if master != nil {
		select {
		case <-done:
		case <-time.After(3 * time.Second):
		}
		master.Close()
		<-done
	}
	if ctx.Err() != nil {
		if remIsGit(s.URL) {
			return -1, "", nil
		}
		return 0, "", errInconclusive{"task binary hung (killed)"}
	}
	mu.Lock()
	out = buf.String()
	mu.Unlock()
	if werr != nil {
		if ee, ok := werr.(*exec.ExitError); ok {
			return ee.ExitCode(), out, nil
		}
		return 0, out, werr
	}
	return 0, out, nil
}

type lockedWriter struct {
	mu *sync.Mutex
	b  *bytes.Buffer
}

func (l *lockedWriter) Write(p []byte) (int, error) {
	l.mu.Lock()
	defer l.mu.Unlock()
	return l.b.Write(p)
}

func (rr *remRun) age(hours int) {
	ents, _ := os.ReadDir(filepath.Join(rr.cache, "remote"))
	for _, e := range ents {
		if !strings.HasSuffix(e.Name(), ".timestamp") {
			continue
		}
		p := filepath.Join(rr.cache, "remote", e.Name())
		b, err := os.ReadFile(p)
		if err != nil {
			continue
		}
		t, err := time.Parse(time.RFC3339, string(b))
		if err != nil {
			continue
		}
		os.WriteFile(p, []byte(t.Add(-time.Duration(hours)*time.Hour).Format(time.RFC3339)), 0o644)
	}
}

// cacheView: per URL `<content number|->,<checksum number|->,<timestamp present>` and, when the stored location is
// another URL than the entry's own (a default name under the directory URL), `@<its model id>`; foreign files are listed
func (rr *remRun) cacheView() string {
	type ent struct{ c, s, t, l string }
	v := [remURLs]ent{}
	for i := range v {
		v[i] = ent{"-", "-", "0", ""}
	}
	var unknown []string
	ents, _ := os.ReadDir(filepath.Join(rr.cache, "remote"))
	for _, e := range ents {
		name := e.Name()
		u := -1
		for i, k := range rr.keys {
			if strings.Contains(name, k) {
				u = i
			}
		}
		if u < 0 {
			unknown = append(unknown, "unknown:"+name)
			continue
		}
		b, _ := os.ReadFile(filepath.Join(rr.cache, "remote", name))
		cu := remCu(u)
		which := func(match func(content []byte) bool) string {
			out := "?"
			for _, uu := range remHTTP {
				for k := 1; k <= remMaxContent; k++ {
					if k%10 != 0 && match(remContent(uu, k, rr.srv.port)) {
						if uu == cu {
							out = fmt.Sprint(k)
						} else { // something of another URL sits in this URL's cache file
							out = fmt.Sprintf("!u%dv%d", uu, k)
						}
					}
				}
			}
			return out
		}
		switch {
		case strings.HasSuffix(name, ".yaml"):
			if len(b) <= 512 && bytes.HasPrefix([]byte(remPad), b) { // empty, or cut off by the file-size limit: not a Taskfile
				v[u].c = "0"
			} else {
				v[u].c = which(func(c []byte) bool { return bytes.Equal(b, c) })
			}
		case strings.HasSuffix(name, ".checksum"):
			if len(b) == 0 {
				break
			}
			v[u].s = which(func(c []byte) bool { return string(b) == sha256hex(c) })
		case strings.HasSuffix(name, ".timestamp"):
			v[u].t = "1"
		case strings.HasSuffix(name, ".location"):
			switch loc := string(b); {
			case loc == rr.urls[u]:
			case u == 7 && strings.HasPrefix(loc, rr.urls[7]+"/"):
				v[u].l = "@?"
				for j, n := range remDirNames {
					if loc == rr.urls[7]+"/"+n {
						v[u].l = fmt.Sprintf("@%d", 10+j)
					}
				}
			default:
				v[u].l = "@?"
			}
		default:
			unknown = append(unknown, "unknown:"+name)
		}
	}
	parts := make([]string, 0, remURLs+len(unknown))
	for _, e := range v {
		parts = append(parts, e.c+","+e.s+","+e.t+e.l)
	}
	sort.Strings(unknown)
	return strings.Join(append(parts, unknown...), " ")
}

// remEvalOnce: one sequence on the real binary; picks = the exit status of every step
func remEvalOnce(d remCase, work string) (impl string, picks []int, err error) {
	impl, err = remEvalSeq(d, work, &picks)
	return
}

func remEvalSeq(d remCase, work string, picks *[]int) (impl string, err error) {
	if os.Getenv("VERIF_TASK_BIN") == "" {
		return "", fmt.Errorf("VERIF_TASK_BIN not set")
	}
	rr := &remRun{dir: work, cache: filepath.Join(work, "cache"), proj: filepath.Join(work, "proj"), trace: filepath.Join(work, "trace")}
	for _, p := range []string{rr.cache, rr.proj, filepath.Join(work, "home")} {
		if e := os.MkdirAll(p, 0o755); e != nil {
			return "", e
		}
	}
	defer os.RemoveAll(work)
	rr.srv = &remServer{}
	if e := rr.srv.listen(); e != nil {
		rr.srv.shutdown()
		return "", errInconclusive{"listen: " + e.Error()}
	}
	defer rr.srv.shutdown()
	_, rr.certFile, _ = remTLSConfig()
	rr.gitURL = fmt.Sprintf("http://127.0.0.1:%d/r.git//Taskfile.yml", rr.srv.hole.Addr().(*net.TCPAddr).Port)
	for u := 0; u < remURLs; u++ {
		scheme, port := "http", rr.srv.plain.port
		if u == 2 {
			scheme = "https"
		}
		if u == 6 {
			scheme, port = "https", rr.srv.tls.port
		}
		rr.urls[u] = fmt.Sprintf("%s://127.0.0.1:%d%s", scheme, port, remPaths[u])
		rr.keys[u] = sha256hex([]byte(rr.urls[u]))
		inc := fmt.Sprintf("version: '3'\nincludes:\n  r: %s\n", rr.urls[u])
		if e := os.WriteFile(filepath.Join(rr.proj, fmt.Sprintf("inc%d.yml", u)), []byte(inc), 0o644); e != nil {
			return "", e
		}
	}
	approved := map[[2]int]bool{} // (url, version) offered under --yes or an accepted prompt so far
	offers := func(u int, kind string, patient bool) bool {
		switch kind {
		case "serve", "redirect", "redirects":
			return true
		case "ctype":
			return u == 7
		case "stall", "stallget":
			return patient
		}
		return false
	}
	var outs []string
	for i, s := range d.Steps {
		s = s.norm()
		// first the damage / the killed invocation, then the ageing (the model's events come before the step, whose clock
		// tick is the ageing: a timestamp a killed invocation wrote is aged with the others)
		if e := rr.applyPre(s); e != nil {
			return "", e
		}
		if s.Age > 0 {
			rr.age(s.Age)
		}
		if strings.HasPrefix(s.Pre, "torn") { // stands for an invocation that approved this version and was killed
			approved[[2]int{s.PreURL, s.PreV}] = true
		}
		// server state for this step
		if s.Server == "refuse" {
			rr.srv.close()
		} else {
			rr.srv.mu.Lock()
			rr.srv.state = s
			rr.srv.mu.Unlock()
			if !rr.srv.listening() {
				if e := rr.srv.listen(); e != nil {
					return "", errInconclusive{"re-listen on the same port: " + e.Error()}
				}
			}
		}
		os.Remove(rr.trace)
		exit, out, e := rr.runCLI(s, d.Chain || d.Tree)
		if e != nil {
			return "", e
		}
		*picks = append(*picks, exit)
		// a timeout although the server was not stalling: the machine was too slow for --timeout 300ms
		offered := offers(s.URL, s.Server, s.Patient)
		if !((s.stalls() || s.stalls2()) && !s.Patient) && (exit == 108 || strings.Contains(out, "deadline exceeded")) {
			return "", errInconclusive{fmt.Sprintf("spurious timeout: step %d", i)}
		}
		if offered && s.URL != 2 && (s.Yes || s.Answer == "accept") {
			approved[[2]int{s.URL, s.c1()}] = true
		}
		cu := remCu(s.URL)
		// the same for one node of a step in which the *other* node stalls: a fetch of a serving URL was
		// begun ("downloading remote file: U") and did not end in "found remote file at U"
		lost := func(u string) bool {
			return strings.Contains(out, "downloading remote file: "+u+"\n") && !strings.Contains(out, "found remote file at \""+u+"\"") &&
				!strings.Contains(out, "insecure connection")
		}
		if d.Chain && s.URL != 2 && s.URL < remURLs {
			if offered && lost(rr.urls[s.URL]) {
				return "", errInconclusive{fmt.Sprintf("spurious timeout: step %d node 1", i)}
			}
			spent := s.stalls() && !s.Patient
			for _, o := range remHTTP {
				if o != cu && !spent && offers(o, s.Server2, s.Patient) && lost(rr.urls[o]) {
					return "", errInconclusive{fmt.Sprintf("spurious timeout: step %d node 2", i)}
				}
			}
		}
		if !d.Tree && s.Server2 != "" && offers(0, s.Server2, s.Patient) && (s.Yes || s.Answer2 == "accept") {
			for _, o := range remHTTP { // whichever other URL the step's content includes
				if o != cu {
					approved[[2]int{o, s.V2}] = true
				}
			}
		}
		if d.Tree {
			spentA := s.stalls() && !s.Patient
			stallB := (s.Server2 == "stall" || s.Server2 == "stallget") && !s.Patient
			if !spentA && offers(1, s.Server2, s.Patient) && lost(rr.urls[1]) {
				return "", errInconclusive{fmt.Sprintf("spurious timeout: step %d node B", i)}
			}
			if !spentA && !(s.Inc == 4 && stallB) && offers(3, s.Server3, s.Patient) && lost(rr.urls[3]) {
				return "", errInconclusive{fmt.Sprintf("spurious timeout: step %d node C", i)}
			}
			if offers(1, s.Server2, s.Patient) && (s.Yes || s.Answer2 == "accept") {
				approved[[2]int{1, s.V2 + 10*s.Inc2}] = true
			}
			if offers(3, s.Server3, s.Patient) && (s.Yes || s.Answer3 == "accept") {
				approved[[2]int{3, s.V3}] = true
			}
		}
		var ran []string
		if b, e := os.ReadFile(rr.trace); e == nil {
			ran = strings.Fields(string(b))
		}
		// the trace in the model's syntax: content numbers; a marker of a URL that should not have run here stays as it is
		violation := false
		toks := make([]string, len(ran))
		first := -1
		for j, m := range ran {
			var mu, mv int
			n, _ := fmt.Sscanf(m, "u%dv%d", &mu, &mv)
			toks[j] = "?" + m
			switch {
			case d.Tree: // every node of the tree by content number and URL
				if n == 2 && (j > 0 || mu == 0) {
					toks[j] = fmt.Sprintf("%du%d", mv, mu)
				}
				if n != 2 || !approved[[2]int{mu, mv}] {
					violation = true
				}
			case n == 2 && j == 0 && mu == cu:
				toks[j], first = fmt.Sprint(mv), mv
				if !approved[[2]int{s.URL, mv}] {
					violation = true
				}
			case n == 2 && j == 1 && d.Chain && mu != cu: // the included Taskfile's probe
				if first >= 0 && mu == remIncTarget(first) {
					toks[j] = fmt.Sprint(mv)
				}
				if !approved[[2]int{mu, mv}] {
					violation = true
				}
			default:
				violation = true
			}
		}
		res := ""
		switch {
		case exit < 0:
			res = "hang"
		case exit == 0 && len(ran) == 0:
			res = "cleared"
		case exit == 0:
			res = "run:" + strings.Join(toks, "+")
		case len(ran) == 0:
			res = fmt.Sprintf("err:%d", exit)
		default:
			res = fmt.Sprintf("err:%d+ran:%s", exit, strings.Join(toks, "+"))
		}
		line := res + " " + rr.cacheView()
		if violation {
			line += " TRUST-VIOLATION"
		}
		outs = append(outs, line)
	}
	return strings.Join(outs, " ; "), nil
}

var remSeq struct {
	sync.Mutex
	n       int
	retries map[string]int
}

func evalRemote(d remCase) (string, string) {
	cl := remCaseLine(d, nil)
	base := os.Getenv("VERIF_SCRATCH")
	if base == "" {
		base = os.TempDir()
	}
	var last error
	for attempt := 0; attempt < 4; attempt++ {
		remSeq.Lock()
		remSeq.n++
		work := filepath.Join(base, "remote", fmt.Sprintf("s%d", remSeq.n))
		remSeq.Unlock()
		impl, picks, err := remEvalOnce(d, work)
		if err == nil {
			return remCaseLine(d, picks), impl
		}
		last = err
		if _, ok := err.(errInconclusive); !ok {
			break
		}
		remSeq.Lock()
		if remSeq.retries == nil {
			remSeq.retries = map[string]int{}
		}
		remSeq.retries[strings.SplitN(err.Error(), ":", 2)[0]]++
		remSeq.Unlock()
	}
	return cl, "harness-error " + strings.ReplaceAll(last.Error(), "\n", " ")
}

// ---- generation

func (c *Ctx) remStep(prev *remStep, pty bool) remStep {
	r := c.Rng
	s := remStep{Via: "root", Answer: "none"}
	if r.Intn(100) < 30 {
		s.Via = "include"
	}
	switch x := r.Intn(100); {
	case x < 34:
		s.URL = 0
	case x < 44: // same host and path as URL 0, another query
		s.URL = 3
	case x < 49: // … another letter case of the path
		s.URL = 4
	case x < 54: // … a doubled slash in the path
		s.URL = 5
	case x < 66:
		s.URL = 1
	case x < 70:
		s.URL = 2
	case x < 84: // https on the TLS listener: serves, or redirects to plain http / to https
		s.URL = 6
	default: // directory-style URL
		s.URL = 7
		s.DirName = r.Intn(len(remDirNames))
		if r.Intn(3) == 0 {
			s.DirHead = "ctype"
		}
	}
	if r.Intn(100) < 15 {
		s.Age = 2
	}
	s.Insecure = r.Intn(100) < 88
	if s.URL == 6 { // https needs no --insecure; a redirect to plain http does
		s.Insecure = r.Intn(100) < 45
	}
	s.Yes = r.Intn(100) < 30
	s.NoExp = r.Intn(100) < 4
	dl, off := r.Intn(100) < 22, r.Intn(100) < 22
	if dl && off && r.Intn(100) < 75 {
		if r.Intn(2) == 0 {
			dl = false
		} else {
			off = false
		}
	}
	s.Download, s.Offline = dl, off
	if r.Intn(100) < 50 {
		s.Expiry = 1
	} else {
		s.ExpiryOmit = r.Intn(2) == 0
	}
	s.Clear = r.Intn(100) < 4
	// server
	s.V = 1 + r.Intn(3)
	if prev != nil && r.Intn(100) < 55 {
		s.V = prev.V
	}
	switch x := r.Intn(100); {
	case x < 52:
		s.Server = "serve"
	case x < 63:
		s.Server = "refuse"
	case x < 68:
		s.Server = "reset"
	case x < 73:
		s.Server = "404"
	case x < 76:
		s.Server = "500"
	case x < 80:
		s.Server = "get500"
	case x < 83:
		s.Server = "ctype"
	case x < 94:
		s.Server = "stall"
	default:
		s.Server = "stallget"
	}
	if s.URL == 6 && r.Intn(100) < 55 {
		s.Server = []string{"redirect", "redirect", "redirects"}[r.Intn(3)]
	}
	if s.stalls() {
		s.Patient = r.Intn(100) < 25
	} else {
		s.Patient = r.Intn(100) < 10
	}
	s.Limited = r.Intn(100) < 7
	// now and then the cache is torn or damaged before the step: mostly the step's own entry
	if r.Intn(100) < 14 {
		s.Pre = []string{"swap", "swap", "trunc", "rm", "torn1", "torn1", "torn2", "torn3"}[r.Intn(8)]
		s.PreURL = s.URL
		if r.Intn(100) < 15 {
			s.PreURL = []int{0, 1, 3, 6, 7}[r.Intn(5)]
		}
		s.PreV = 1 + r.Intn(3)
	}
	if pty {
		switch x := r.Intn(100); {
		case x < 35:
			s.Answer = "accept"
			s.Text = []string{"y", "yes", "Y", "YES", " y "}[r.Intn(5)]
		case x < 60:
			s.Answer = "decline"
			s.Text = []string{"n", "", "no", "x", "yes please", "N"}[r.Intn(6)]
		}
	}
	return s
}

func remServerKind(x int) string {
	switch {
	case x < 52:
		return "serve"
	case x < 63:
		return "refuse"
	case x < 68:
		return "reset"
	case x < 73:
		return "404"
	case x < 76:
		return "500"
	case x < 80:
		return "get500"
	case x < 83:
		return "ctype"
	case x < 94:
		return "stall"
	}
	return "stallget"
}

// remChainStep: a step of a chain sequence.  `au`, `bu` are the sequence's URLs A and B: only A is ever served
// content that includes B (or itself), so the cached content of every other URL is a plain Taskfile (the model reads
// chains of two).  The step reads A (as root or as the include of a local root) with probability 85%, else B or
// another http URL.
func (c *Ctx) remChainStep(prev *remStep, pty bool, au, bu int, stallBudget *int) remStep {
	r := c.Rng
	s := c.remStep(prev, pty)
	s.URL = au
	switch x := r.Intn(100); {
	case x < 10:
		s.URL = bu
	case x < 15: // some other plain URL sharing the cache directory (not URL 5: url.JoinPath cleans its doubled slash
		// away, so RemoteExists' probes for default Taskfile names under it are requests under URL 0, which a
		// chain step may serve differently from the step's own URL)
		s.URL = []int{0, 1, 3, 4}[r.Intn(4)]
	}
	if au == 7 && s.URL != au && s.URL != bu { // nothing but A and B under /dd
		s.URL = bu
	}
	s.Insecure = r.Intn(100) < 88
	s.DirName, s.DirHead = 0, ""
	if s.URL == 7 {
		s.DirName = r.Intn(len(remDirNames))
		if r.Intn(3) == 0 {
			s.DirHead = "ctype"
		}
	}
	if s.Server == "redirect" || s.Server == "redirects" {
		s.Server = "serve"
	}
	if s.Pre != "" { // damage: A's or B's entry; B is always served plain content
		s.PreURL = au
		if r.Intn(100) < 40 {
			s.PreURL = bu
			s.PreV = 1 + r.Intn(3)
		} else if s.Pre == "swap" || strings.HasPrefix(s.Pre, "torn") {
			s.PreV = 1 + r.Intn(3) + 10*remIncFor(bu, r.Intn(2) == 1) // a version of A that includes B, too
		}
	}
	s.Inc = 0
	if s.URL == au {
		switch x := r.Intn(100); {
		case x < 78: // includes B, by a relative or an absolute reference
			s.Inc = remIncFor(bu, r.Intn(2) == 1)
		case x < 83: // includes itself
			s.Inc = remIncFor(au, r.Intn(2) == 1)
		}
		if prev != nil && prev.URL == au && r.Intn(100) < 60 {
			s.V, s.Inc = prev.V, prev.Inc
		}
	}
	// server behaviour towards the two URLs: independent, a little more stalling of the step's own URL
	if r.Intn(100) < 12 {
		s.Server = "stall"
	}
	s.Server2 = remServerKind(r.Intn(100))
	s.V2 = 1 + r.Intn(3)
	if prev != nil && prev.Server2 != "" && r.Intn(100) < 60 {
		s.V2 = prev.V2
	}
	if s.stalls() || s.stalls2() {
		s.Patient = r.Intn(100) < 20
		if !s.Patient && !s.NoExp {
			if *stallBudget <= 0 { // bound the wall time: no more stalls past the timeout
				if s.stalls() {
					s.Server = "serve"
				}
				if s.stalls2() {
					s.Server2 = "serve"
				}
			} else {
				*stallBudget--
			}
		}
	}
	if s.Answer != "none" {
		if r.Intn(100) < 55 {
			s.Answer2 = "accept"
			s.Text2 = []string{"y", "yes", "Y", "YES", " y "}[r.Intn(5)]
		} else {
			s.Answer2 = "decline"
			s.Text2 = []string{"n", "", "no", "x", "yes please", "N"}[r.Intn(6)]
		}
	}
	return s.norm()
}

// remTreeStep: a step of a tree sequence (A = URL 0, B = URL 1, C = URL 3); shape 9 = A includes B and C, 4 = A includes B,
// which includes C.  The three servers behave independently (failures are biased towards ONE node, so that most failing
// loads have one failing node; when several fail the model is told which error the binary reported).
func (c *Ctx) remTreeStep(prev *remStep, pty bool, shape int, stallBudget *int) remStep {
	r := c.Rng
	s := c.remStep(prev, pty)
	s.URL, s.DirName, s.DirHead, s.Pre, s.PreURL, s.PreV = 0, 0, "", "", 0, 0
	s.Insecure = r.Intn(100) < 90
	s.Inc = shape
	s.Inc2 = 0
	if shape == 4 && r.Intn(100) < 80 {
		s.Inc2 = 6
	}
	if r.Intn(100) < 6 { // A includes nothing / itself
		s.Inc = []int{0, 3}[r.Intn(2)]
	}
	if prev != nil && r.Intn(100) < 60 {
		s.V, s.Inc, s.Inc2 = prev.V, prev.Inc, prev.Inc2
	}
	if s.Server == "redirect" || s.Server == "redirects" || r.Intn(100) < 55 {
		s.Server = "serve"
	}
	s.Server2, s.Server3 = "serve", "serve"
	switch x := r.Intn(100); {
	case x < 30:
		s.Server2 = remServerKind(r.Intn(100))
	case x < 60:
		s.Server3 = remServerKind(r.Intn(100))
	case x < 70:
		s.Server2, s.Server3 = remServerKind(r.Intn(100)), remServerKind(r.Intn(100))
	}
	s.V2, s.V3 = 1+r.Intn(3), 1+r.Intn(3)
	if prev != nil && r.Intn(100) < 65 {
		s.V2, s.V3 = prev.V2, prev.V3
	}
	if r.Intn(100) < 10 { // damage to one of the three entries
		s.Pre = []string{"swap", "trunc", "rm", "torn1"}[r.Intn(4)]
		s.PreURL = []int{0, 1, 3}[r.Intn(3)]
		s.PreV = 1 + r.Intn(3)
		if s.PreURL == 0 {
			s.PreV += 10 * shape
		}
	}
	if s.stalls() || s.stalls2() {
		s.Patient = r.Intn(100) < 20
		if !s.Patient && !s.NoExp {
			if *stallBudget <= 0 {
				if s.stalls() {
					s.Server = "serve"
				}
				if s.Server2 == "stall" || s.Server2 == "stallget" {
					s.Server2 = "serve"
				}
				if s.Server3 == "stall" || s.Server3 == "stallget" {
					s.Server3 = "serve"
				}
			} else {
				*stallBudget--
			}
		}
	}
	if s.Answer != "none" {
		pick := func() (string, string) {
			if r.Intn(100) < 60 {
				return "accept", []string{"y", "yes", "Y", "YES", " y "}[r.Intn(5)]
			}
			return "decline", []string{"n", "", "no", "x", "yes please", "N"}[r.Intn(6)]
		}
		s.Answer2, s.Text2 = pick()
		s.Answer3, s.Text3 = pick()
	}
	return s.norm()
}

func runRemote(c *Ctx) {
	if c.Replay(func(raw []byte) (string, string) {
		var d remCase
		mustJSON(raw, &d)
		return evalRemote(d)
	}) {
		return
	}
	pty := havePty()
	if !pty {
		c.Hit("pty-unavailable")
	}
	maxLen := c.Pick(5, 8)
	n := c.Pick(500, 6000)
	cases := make([]remCase, 0, n)
	for i := 0; i < n; i++ {
		k := 2 + c.Rng.Intn(maxLen-1)
		var d remCase
		var prev *remStep
		for j := 0; j < k; j++ {
			s := c.remStep(prev, pty)
			if j == 0 && c.Rng.Intn(100) < 60 { // most histories start by getting an approved copy
				s.Server, s.Yes, s.Insecure, s.NoExp, s.Offline, s.Clear, s.Patient = "serve", true, true, false, false, false, false
				if s.URL == 2 {
					s.URL = 0
				}
			}
			d.Steps = append(d.Steps, s)
			prev = &d.Steps[len(d.Steps)-1]
		}
		cases = append(cases, d)
	}
	// chains: A includes B, both read under one --timeout
	nChain := c.Pick(250, 3000)
	stallBudget := c.Pick(150, 1<<30)
	for i := 0; i < nChain; i++ {
		k := 2 + c.Rng.Intn(maxLen-1)
		d := remCase{Chain: true}
		// A and B: the two paths, or two URLs of one path that differ only in the query
		au, bu := 0, 1
		switch x := c.Rng.Intn(100); {
		case x < 30:
		case x < 40:
			au, bu = 1, 0
		case x < 55:
			au, bu = 0, 3
		case x < 65:
			au, bu = 3, 0
		default: // A is the directory-style URL /dd, B its sibling /dd/inc.yml (`./inc.yml` or an absolute reference)
			au, bu = 7, 8
		}
		var prev *remStep
		for j := 0; j < k; j++ {
			s := c.remChainStep(prev, pty, au, bu, &stallBudget)
			if j == 0 && c.Rng.Intn(100) < 70 { // most histories start by getting approved copies of A and of B
				wasStall := (s.stalls() || s.stalls2()) && !s.Patient && !s.NoExp
				s.URL, s.Server, s.Server2, s.Yes, s.Insecure, s.NoExp, s.Offline, s.Clear, s.Patient = au, "serve", "serve", true, true, false, false, false, false
				if wasStall {
					stallBudget++
				}
				if remIncTarget(s.c1()) != bu {
					s.Inc = remIncFor(bu, c.Rng.Intn(2) == 1)
				}
				s = s.norm()
			}
			d.Steps = append(d.Steps, s)
			prev = &d.Steps[len(d.Steps)-1]
		}
		cases = append(cases, d)
	}
	// trees: A = URL 0 includes B = URL 1 and C = URL 3 (siblings: two goroutines of one errgroup, prompts serialised by
	// promptMutex), or A includes B and B includes C (a chain of three under the one deadline)
	nTree := c.Pick(120, 1500)
	for i := 0; i < nTree; i++ {
		k := 2 + c.Rng.Intn(3)
		d := remCase{Tree: true}
		shape := 9 // siblings
		if c.Rng.Intn(100) < 45 {
			shape = 4 // chain of three
		}
		var prev *remStep
		for j := 0; j < k; j++ {
			s := c.remTreeStep(prev, pty, shape, &stallBudget)
			if j == 0 && c.Rng.Intn(100) < 70 { // most histories start by getting approved copies of all three
				wasStall := (s.stalls() || s.stalls2()) && !s.Patient && !s.NoExp
				s.Server, s.Server2, s.Server3, s.Yes, s.Insecure, s.NoExp, s.Offline, s.Clear, s.Patient = "serve", "serve", "serve", true, true, false, false, false, false
				if wasStall {
					stallBudget++
				}
				s.Inc = shape
				if shape == 4 {
					s.Inc2 = 6
				}
				s = s.norm()
			}
			d.Steps = append(d.Steps, s)
			prev = &d.Steps[len(d.Steps)-1]
		}
		cases = append(cases, d)
	}
	// git nodes: the harness has no git server; what can be exercised offline is a server that accepts the connection
	// and never answers — under --timeout 300ms that is 108 (no cache), and nothing else: the binary must come back
	nGit := c.Pick(10, 60)
	for i := 0; i < nGit; i++ {
		var d remCase
		k := 1 + c.Rng.Intn(2)
		for j := 0; j < k; j++ {
			s := remStep{URL: remGitURL, Via: "root", Server: "stall", V: 1, Answer: "none", ExpiryOmit: true}
			if c.Rng.Intn(100) < 45 { // the plaintext git protocol
				s.URL = remGitProtoURL
			}
			s.Insecure = c.Rng.Intn(100) < 65
			s.Yes = c.Rng.Intn(2) == 0
			s.Offline = c.Rng.Intn(100) < 15
			s.NoExp = c.Rng.Intn(100) < 5
			d.Steps = append(d.Steps, s.norm())
		}
		cases = append(cases, d)
	}
	type res struct{ cl, il string }
	out := make([]res, len(cases))
	workers := 12
	var wg sync.WaitGroup
	jobs := make(chan int)
	for w := 0; w < workers; w++ {
		wg.Add(1)
		go func() {
			defer wg.Done()
			for i := range jobs {
				cl, il := evalRemote(cases[i])
				out[i] = res{cl, il}
			}
		}()
	}
	for i := range cases {
		jobs <- i
	}
	close(jobs)
	wg.Wait()
	for i, d := range cases {
		steps := strings.Split(out[i].il, " ; ")
		open := false
		for j, s := range d.Steps {
			c.Hit("server:" + s.Server)
			c.Hit("answer:" + s.Answer)
			c.Hit("via:" + s.Via)
			c.Hit(fmt.Sprintf("url:%d", s.URL))
			if s.Limited {
				c.Hit("limited")
				if j < len(steps) && strings.HasPrefix(steps[j], "err:1 ") {
					c.Hit("limited:yaml-write-failed")
				}
			}
			if s.Pre != "" {
				c.Hit("pre:" + s.Pre)
				if s.PreURL != s.URL {
					c.Hit("pre:other-url")
				}
			}
			if s.URL == 7 {
				c.Hit(fmt.Sprintf("dir:name-%d", s.DirName))
				c.Hit("dir:head-" + map[string]string{"": "404", "ctype": "ctype"}[s.DirHead])
			}
			if s.URL == 6 && strings.HasPrefix(s.Server, "redirect") {
				c.Hit("tls:" + s.Server + map[bool]string{true: "-insecure", false: "-secure"}[s.Insecure])
			}
			if d.Tree {
				c.Hit("tree:step")
				c.Hit(fmt.Sprintf("tree:shape-%d-%d", s.Inc, s.Inc2))
				c.Hit("tree:serverB:" + s.Server2)
				c.Hit("tree:serverC:" + s.Server3)
				if j < len(steps) {
					r := strings.SplitN(steps[j], " ", 2)[0]
					switch n := strings.Count(r, "+"); {
					case strings.HasPrefix(r, "run:") && n == 2 && s.Inc == 9:
						c.Hit("tree:siblings-ran")
					case strings.HasPrefix(r, "run:") && n == 2:
						c.Hit("tree:chain-of-three-ran")
					case strings.HasPrefix(r, "err:"):
						c.Hit("tree:" + r)
					}
				}
			}
			if d.Chain {
				c.Hit("chain:step")
				c.Hit("chain:server2:" + s.Server2)
				c.Hit("chain:answer2:" + s.Answer2)
				c.Hit("chain:inc:" + func() string {
					e, ok := remIncTable[s.Inc]
					switch {
					case !ok:
						return "none"
					case e[1] == 1:
						return "abs"
					}
					return "rel"
				}() + func() string {
					if t := remIncTarget(s.c1()); t == 3 || (t == 0 && remCu(s.URL) == 3) {
						return "-query-variant"
					}
					return ""
				}() + func() string {
					if t := remIncTarget(s.c1()); t >= 0 && t == remCu(s.URL) {
						return "-self"
					}
					return ""
				}())
				if j < len(steps) {
					r := strings.SplitN(steps[j], " ", 2)[0]
					both := strings.HasPrefix(r, "run:") && strings.Contains(r, "+")
					spent := s.stalls() && !s.Patient && !s.NoExp
					switch {
					case both && spent:
						c.Hit("chain:both-ran-after-node1-used-up-the-deadline")
					case both && !s.Patient && s.stalls2():
						c.Hit("chain:both-ran-node2-timed-out")
					case both && s.Server2 != "serve" && !s.stalls2():
						c.Hit("chain:both-ran-node2-fetch-failed")
					case both && s.Offline:
						c.Hit("chain:both-ran-offline")
					case both:
						c.Hit("chain:both-ran")
					case spent && r == "err:108":
						c.Hit("chain:deadline-108")
					case r == "err:110":
						c.Hit("chain:cycle-110")
					}
				}
			}
			if j < len(steps) {
				r := strings.SplitN(steps[j], " ", 2)[0]
				c.Hit("result:" + strings.SplitN(r, ":", 2)[0] + func() string {
					if strings.HasPrefix(r, "err:") {
						return ":" + strings.TrimPrefix(r, "err:")
					}
					return ""
				}())
				if r != "err:1" && r != "err:105" {
					open = true
				}
			}
		}
		if strings.HasPrefix(out[i].il, "harness-error") {
			c.Hit("harness-error")
		}
		if open {
			c.Distinct(out[i].cl)
		}
		c.Emit(out[i].cl, out[i].il, d)
	}
	b, _ := json.Marshal(map[string]any{"pty": pty, "workers": workers, "sequences_rerun": remSeq.retries})
	c.Extra["remote"] = json.RawMessage(b)
}
