package main

import (
	"bufio"
	"context"
	"encoding/json"
	"fmt"
	"os"
	"os/exec"
	"path/filepath"
	"runtime"
	"sort"
	"strings"
	"sync"
	"sync/atomic"
	"time"

	task "github.com/go-task/task/v3"
	"github.com/go-task/task/v3/taskfile/ast"
	"github.com/go-task/task/v3/verifhook"
)

// ---------------------------------------------------------------- shared helpers

var raceDirNo int64

// raceMkDir materialises the files of a workload in a fresh directory under $VERIF_SCRATCH.
func raceMkDir(wl raceWorkload) string {
	base := os.Getenv("VERIF_SCRATCH")
	if base == "" {
		base = os.TempDir()
	}
	dir := filepath.Join(base, fmt.Sprintf("race%d-%d", os.Getpid(), atomic.AddInt64(&raceDirNo, 1)))
	os.RemoveAll(dir)
	os.MkdirAll(dir, 0o755)
	for p, content := range wl.Files {
		full := filepath.Join(dir, filepath.FromSlash(p))
		if strings.HasSuffix(p, "/") {
			os.MkdirAll(full, 0o755)
			continue
		}
		os.MkdirAll(filepath.Dir(full), 0o755)
		os.WriteFile(full, []byte(content), 0o644)
	}
	return dir
}

// tailBuf keeps the last `max` bytes written to it.
type tailBuf struct {
	mu  sync.Mutex
	b   []byte
	max int
}

func (t *tailBuf) Write(p []byte) (int, error) {
	t.mu.Lock()
	defer t.mu.Unlock()
	t.b = append(t.b, p...)
	if len(t.b) > 2*t.max {
		t.b = append([]byte(nil), t.b[len(t.b)-t.max:]...)
	}
	return len(p), nil
}

func (t *tailBuf) String() string {
	t.mu.Lock()
	defer t.mu.Unlock()
	return string(t.b)
}

func raceCut(s string, n int) string {
	if len(s) > n {
		return s[:n]
	}
	return s
}

func raceTail(s string, n int) string {
	if len(s) > n {
		return s[len(s)-n:]
	}
	return s
}

// raceClassifyExit turns the end of an evaluator process into a verdict.
func raceClassifyExit(exit int, out string, killedByUs bool) (verdict, report string) {
	if i := strings.Index(out, "WARNING: DATA RACE"); i >= 0 && exit == 66 {
		return "race", raceCut(out[i:], 6000)
	}
	if killedByUs {
		return "timeout", raceTail(out, 3000)
	}
	for _, mark := range []string{"\npanic: ", "\nfatal error: ", "\n[signal "} {
		if i := strings.Index("\n"+out, mark); i >= 0 {
			return "crash", raceCut(("\n" + out)[i+1:], 6000)
		}
	}
	return "", ""
}

// ---------------------------------------------------------------- evaluator slot (supervisor side)

type raceWorkerProc struct {
	cmd   *exec.Cmd
	in    *bufio.Writer
	lines chan string
	errb  *tailBuf
}

type raceSlot struct{ w *raceWorkerProc }

func startRaceWorker() *raceWorkerProc {
	self, _ := os.Executable()
	cmd := exec.Command(self, "race-worker")
	// minimal fixed environment: every variable of the process environment is templated again for every
	// task variable of every compilation, which dominates the run time under the race detector
	home := filepath.Join(os.Getenv("VERIF_SCRATCH"), "home")
	if os.Getenv("VERIF_SCRATCH") == "" {
		home = os.TempDir()
	}
	os.MkdirAll(home, 0o755)
	cmd.Env = []string{"PATH=" + os.Getenv("PATH"), "HOME=" + home, "NO_COLOR=1", "GORACE=" + os.Getenv("GORACE"),
		"VERIF_SCRATCH=" + os.Getenv("VERIF_SCRATCH"), "VERIF_RACE_DEBUG=" + os.Getenv("VERIF_RACE_DEBUG")}
	inp, _ := cmd.StdinPipe()
	outp, _ := cmd.StdoutPipe()
	eb := &tailBuf{max: 1 << 18}
	cmd.Stderr = eb
	cmd.WaitDelay = 2 * time.Second // a grandchild may keep the stderr pipe open after the worker was killed
	if err := cmd.Start(); err != nil {
		panic(err)
	}
	lines := make(chan string, 4)
	go func() {
		sc := bufio.NewScanner(outp)
		sc.Buffer(make([]byte, 1<<16), 1<<22)
		for sc.Scan() {
			lines <- sc.Text()
		}
		close(lines)
	}()
	return &raceWorkerProc{cmd: cmd, in: bufio.NewWriter(inp), lines: lines, errb: eb}
}

func (s *raceSlot) stop() {
	if s.w != nil {
		s.w.cmd.Process.Kill()
		s.w.cmd.Wait()
		s.w = nil
	}
}

func (s *raceSlot) eval(wl raceWorkload, bound time.Duration) *raceVerdict {
	t0 := time.Now()
	var v *raceVerdict
	if wl.Via == "cli" {
		v = raceEvalCLI(wl, bound)
	} else {
		v = s.evalInProc(wl, bound)
	}
	v.Millis = time.Since(t0).Milliseconds()
	return v
}

func (s *raceSlot) evalInProc(wl raceWorkload, bound time.Duration) *raceVerdict {
	if s.w == nil {
		s.w = startRaceWorker()
	}
	w := s.w
	b, _ := json.Marshal(wl)
	w.in.Write(b)
	w.in.WriteByte('\n')
	w.in.Flush()
	timer := time.NewTimer(bound)
	defer timer.Stop()
	for {
		select {
		case ln, ok := <-w.lines:
			if ok {
				var r struct {
					Result string `json:"result"`
					Done   bool   `json:"done"`
				}
				if json.Unmarshal([]byte(ln), &r) != nil || !r.Done {
					continue // not a protocol line
				}
				return &raceVerdict{Verdict: "ok", Result: r.Result}
			}
			// the worker died on this workload
			err := w.cmd.Wait()
			s.w = nil
			exit := -1
			if w.cmd.ProcessState != nil {
				exit = w.cmd.ProcessState.ExitCode()
			}
			out := w.errb.String()
			if verdict, rep := raceClassifyExit(exit, out, false); verdict != "" {
				return &raceVerdict{Verdict: verdict, Report: rep}
			}
			return &raceVerdict{Verdict: "crash", Report: fmt.Sprintf("worker ended (%v, exit %d)\n%s", err, exit, raceTail(out, 5000))}
		case <-timer.C:
			w.cmd.Process.Kill() // SIGKILL: the executor swallows the first two SIGTERM/SIGINT
			w.cmd.Wait()
			s.w = nil
			out := w.errb.String()
			if i := strings.Index(out, "WARNING: DATA RACE"); i >= 0 {
				return &raceVerdict{Verdict: "race", Report: raceCut(out[i:], 6000)}
			}
			return &raceVerdict{Verdict: "timeout", Report: fmt.Sprintf("not finished within %v\n%s", bound, raceTail(out, 3000))}
		}
	}
}

// raceCLIArgs derives the command line of the real CLI from the options of a workload.
func raceCLIArgs(wl raceWorkload) []string {
	o := wl.Opts
	args := []string{"-t", "Taskfile.yml"}
	if o.Parallel {
		args = append(args, "--parallel")
	}
	if o.Concurrency > 0 {
		args = append(args, "--concurrency", fmt.Sprint(o.Concurrency))
	}
	if o.Dry {
		args = append(args, "--dry")
	}
	if o.Force || o.ForceAll {
		args = append(args, "--force")
	}
	if o.Silent {
		args = append(args, "--silent")
	}
	if o.Verbose {
		args = append(args, "--verbose")
	}
	if o.Output != "" {
		args = append(args, "--output", o.Output)
		if o.Output == "group" {
			if o.GroupBegin != "" {
				args = append(args, "--output-group-begin", o.GroupBegin)
			}
			if o.GroupEnd != "" {
				args = append(args, "--output-group-end", o.GroupEnd)
			}
			if o.GroupErrorOnly {
				args = append(args, "--output-group-error-only")
			}
		}
	}
	vars := map[string]string{}
	for _, c := range wl.Calls {
		args = append(args, c.Task)
		for k, v := range c.Vars {
			vars[k] = v // the CLI knows global NAME=value pairs only
		}
	}
	ks := make([]string, 0, len(vars))
	for k := range vars {
		ks = append(ks, k)
	}
	sort.Strings(ks)
	for _, k := range ks {
		args = append(args, k+"="+vars[k])
	}
	return args
}

func raceEvalCLI(wl raceWorkload, bound time.Duration) *raceVerdict {
	bin := os.Getenv("VERIF_TASK_BIN_RACE")
	dir := raceMkDir(wl)
	defer os.RemoveAll(dir)
	home := filepath.Join(filepath.Dir(dir), "home")
	os.MkdirAll(home, 0o755)
	ctx, cancel := context.WithTimeout(context.Background(), bound)
	defer cancel()
	cmd := exec.CommandContext(ctx, bin, raceCLIArgs(wl)...) // Cancel = Process.Kill (SIGKILL)
	cmd.Dir = dir
	cmd.Env = []string{"PATH=" + os.Getenv("PATH"), "HOME=" + home, "NO_COLOR=1", "TASK_TEMP_DIR=.task",
		"GORACE=halt_on_error=1 exitcode=66", fmt.Sprintf("GOMAXPROCS=%d", wl.Procs)}
	out := &tailBuf{max: 1 << 18}
	cmd.Stdout, cmd.Stderr = out, out
	cmd.WaitDelay = 3 * time.Second
	err := cmd.Run()
	exit := -1
	if cmd.ProcessState != nil {
		exit = cmd.ProcessState.ExitCode()
	}
	killed := ctx.Err() != nil
	if verdict, rep := raceClassifyExit(exit, out.String(), killed); verdict != "" {
		return &raceVerdict{Verdict: verdict, Report: rep}
	}
	if exit < 0 {
		return &raceVerdict{Verdict: "crash", Report: fmt.Sprintf("CLI ended abnormally (%v)\n%s", err, raceTail(out.String(), 5000))}
	}
	return &raceVerdict{Verdict: "ok", Result: fmt.Sprintf("cli-exit:%d", exit)}
}

// ---------------------------------------------------------------- worker process (`harness race-worker`)

type lockedSink struct{ mu sync.Mutex }

func (s *lockedSink) Write(p []byte) (int, error) {
	s.mu.Lock()
	defer s.mu.Unlock()
	return len(p), nil
}

// a real file, as os.Stdin is (a strings.Reader shared by concurrent commands would race in the harness itself)
var raceDevNull *os.File

func raceEvalInProc(wl raceWorkload) string {
	dir := raceMkDir(wl)
	defer os.RemoveAll(dir)
	if wl.Procs > 0 {
		runtime.GOMAXPROCS(wl.Procs)
	}
	verifhook.Reset(wl.JitterSeed, wl.JitterUs)
	o := wl.Opts
	stdout := &lockedSink{}
	stderr := stdout
	if o.SplitStderr {
		stderr = &lockedSink{}
	}
	opts := []task.ExecutorOption{task.WithDir(dir), task.WithStdout(stdout), task.WithStderr(stderr), task.WithStdin(raceDevNull),
		task.WithConcurrency(o.Concurrency), task.WithParallel(o.Parallel), task.WithSilent(o.Silent), task.WithVerbose(o.Verbose),
		task.WithDry(o.Dry), task.WithForce(o.Force), task.WithForceAll(o.ForceAll), task.WithVersionCheck(true),
		task.WithTempDir(task.TempDir{Remote: filepath.Join(dir, ".task"), Fingerprint: filepath.Join(dir, ".task")})}
	if o.Output != "" {
		opts = append(opts, task.WithOutputStyle(ast.Output{Name: o.Output,
			Group: ast.OutputGroup{Begin: o.GroupBegin, End: o.GroupEnd, ErrorOnly: o.GroupErrorOnly}}))
	}
	e := task.NewExecutor(opts...)
	if err := e.Setup(); err != nil {
		if os.Getenv("VERIF_RACE_DEBUG") != "" {
			return "setup-" + verifhook.ErrClass(err) + " :: " + raceCut(err.Error(), 300)
		}
		return "setup-" + verifhook.ErrClass(err)
	}
	calls := make([]*task.Call, 0, len(wl.Calls))
	for _, c := range wl.Calls {
		call := &task.Call{Task: c.Task}
		if len(c.Vars) > 0 {
			ks := make([]string, 0, len(c.Vars))
			for k := range c.Vars {
				ks = append(ks, k)
			}
			sort.Strings(ks)
			call.Vars = ast.NewVars()
			for _, k := range ks {
				call.Vars.Set(k, ast.Var{Value: c.Vars[k]})
			}
		}
		calls = append(calls, call)
	}
	err := e.Run(context.Background(), calls...)
	if err != nil && os.Getenv("VERIF_RACE_DEBUG") != "" {
		return verifhook.ErrClass(err) + " :: " + raceCut(err.Error(), 300)
	}
	return verifhook.ErrClass(err)
}

func raceWorkerMain() {
	raceDevNull, _ = os.Open(os.DevNull)
	sc := bufio.NewScanner(os.Stdin)
	sc.Buffer(make([]byte, 1<<20), 1<<26)
	w := bufio.NewWriter(os.Stdout)
	for sc.Scan() {
		var wl raceWorkload
		res := "bad-json"
		if err := json.Unmarshal(sc.Bytes(), &wl); err == nil {
			res = raceEvalInProc(wl)
		}
		b, _ := json.Marshal(map[string]any{"done": true, "result": res})
		w.Write(b)
		w.WriteByte('\n')
		w.Flush()
	}
}
