package main

// Domain "suggest" (property C15, clause "the error suggests the closest existing task name
// when there is one"): a generated Taskfile is set up for real (Executor.Setup: the
// spelling model is trained there) and asked for names that do not exist; the
// TaskNotFoundError's DidYouMean is judged by the Lean oracle Resolve.Suggest.classify /
// meets (edit distances, not the library's ranking): a request within two edits of exactly
// one name or alias (of four characters or more) must be answered with that name; several
// such names: with one of them; no name within three edits, or a request more than two
// characters longer than every name (the lookup is skipped): no suggestion.

import (
	"bytes"
	"fmt"
	"os"
	"path/filepath"
	"strings"
	"sync/atomic"

	task "github.com/go-task/task/v3"
	"github.com/go-task/task/v3/errors"
)

func init() {
	domains["suggest"] = domain{runSuggest,
		"Executor.Setup on generated Taskfiles (1..5 tasks, names and 0..2 aliases of 2..9 characters over a..h - : 0 1, " +
			"lower case, no '*'), then GetTask on unknown names: a name or alias with one or two edits (insert / delete / " +
			"substitute / transpose), far random names, names much longer than every known name; DidYouMean judged by the " +
			"Lean oracle (class must / oneof / none / skip / any); distinct = (words, request) of class must or oneof"}
}

type sgCase struct {
	Table []resEntry `json:"table"`
	Req   string     `json:"req"`
}

var sgCounter int64

func goLev(a, b string) int {
	prev := make([]int, len(b)+1)
	for j := range prev {
		prev[j] = j
	}
	for i := 1; i <= len(a); i++ {
		cur := make([]int, len(b)+1)
		cur[0] = i
		for j := 1; j <= len(b); j++ {
			c := prev[j-1]
			if a[i-1] != b[j-1] {
				c++
			}
			if prev[j]+1 < c {
				c = prev[j] + 1
			}
			if cur[j-1]+1 < c {
				c = cur[j-1] + 1
			}
			cur[j] = c
		}
		prev = cur
	}
	return prev[len(b)]
}

// sgClass: the harness's own computation of the oracle's class (cross-checked against Lean:
// the implementation line carries it).
func sgClass(words []string, req string) (class string, near []string) {
	maxLen := 0
	for _, w := range words {
		if len(w) > maxLen {
			maxLen = len(w)
		}
	}
	if len(req) > maxLen+2 {
		return "skip", nil
	}
	seen := map[string]bool{}
	long, within3 := false, false
	for _, w := range words {
		d := goLev(req, w)
		if d <= 3 {
			within3 = true
		}
		if d <= 2 && !seen[w] {
			seen[w] = true
			near = append(near, w)
			if len(w) >= 4 {
				long = true
			}
		}
	}
	switch {
	case long && len(near) == 1:
		return "must", near
	case long:
		return "oneof", near
	case !within3:
		return "none", nil
	}
	return "any", near
}

func evalSuggest(d sgCase) (cl, il string) {
	var words []string
	for _, e := range d.Table {
		words = append(words, e.Name)
		words = append(words, e.Aliases...)
	}
	defer func() {
		if r := recover(); r != nil {
			il = "panic"
		}
	}()
	scratch := os.Getenv("VERIF_SCRATCH")
	if scratch == "" {
		scratch = os.TempDir()
	}
	root := filepath.Join(scratch, "suggest", fmt.Sprintf("c%d-%d", os.Getpid(), atomic.AddInt64(&sgCounter, 1)))
	os.RemoveAll(root)
	if err := os.MkdirAll(root, 0o755); err != nil {
		panic(err)
	}
	defer os.RemoveAll(root)
	src := rrTaskfile(rrCase{Table: d.Table})
	if err := os.WriteFile(filepath.Join(root, "Taskfile.yml"), []byte(src), 0o644); err != nil {
		panic(err)
	}
	line := func(dym string) string {
		var sb strings.Builder
		fmt.Fprintf(&sb, "resolve.suggest %d", len(words))
		for _, w := range words {
			sb.WriteString(" " + hx(w))
		}
		sb.WriteString(" " + hx(d.Req) + " " + hx(dym))
		return sb.String()
	}
	var out, errb bytes.Buffer
	e := task.NewExecutor(task.WithDir(root), task.WithStdout(&out), task.WithStderr(&errb), task.WithSilent(true))
	if err := e.Setup(); err != nil {
		return line(""), "setup-error " + hx(err.Error())
	}
	_, err := e.GetTask(&task.Call{Task: d.Req})
	var nf *errors.TaskNotFoundError
	if err == nil || !errors.As(err, &nf) {
		return line(""), "not-a-notfound-error"
	}
	class, _ := sgClass(words, d.Req)
	return line(nf.DidYouMean), class + " ok"
}

var sgLetters = "abcdefgh-:01"

func (c *Ctx) sgWord(min, max int) string {
	n := min + c.Rng.Intn(max-min+1)
	b := make([]byte, n)
	for i := range b {
		if c.chance(85) {
			b[i] = sgLetters[c.Rng.Intn(8)]
		} else {
			b[i] = sgLetters[c.Rng.Intn(len(sgLetters))]
		}
	}
	return string(b)
}

func (c *Ctx) sgEdit(s string) string {
	b := []byte(s)
	ch := sgLetters[c.Rng.Intn(len(sgLetters))]
	switch k := c.Rng.Intn(4); {
	case k == 0 || len(b) == 0:
		i := c.Rng.Intn(len(b) + 1)
		b = append(b[:i:i], append([]byte{ch}, b[i:]...)...)
	case k == 1:
		i := c.Rng.Intn(len(b))
		b = append(b[:i:i], b[i+1:]...)
	case k == 2:
		b[c.Rng.Intn(len(b))] = ch
	default:
		if len(b) >= 2 {
			i := c.Rng.Intn(len(b) - 1)
			b[i], b[i+1] = b[i+1], b[i]
		}
	}
	return string(b)
}

func runSuggest(c *Ctx) {
	if c.Replay(func(raw []byte) (string, string) {
		var d sgCase
		mustJSON(raw, &d)
		return evalSuggest(d)
	}) {
		return
	}
	n := c.Pick(400, 5000)
	for i := 0; i < n; i++ {
		var d sgCase
		k := 1 + c.Rng.Intn(5)
		known := map[string]bool{}
		var words []string
		fresh := func() string {
			for {
				lo := 4
				if c.chance(20) {
					lo = 2
				}
				w := c.sgWord(lo, 9)
				if c.chance(15) && len(words) > 0 {
					// a sibling of an earlier word: two names close to each other (class oneof)
					w = c.sgEdit(words[c.Rng.Intn(len(words))])
				}
				if !known[w] && w != "" && !strings.HasPrefix(w, "zz") {
					known[w] = true
					words = append(words, w)
					return w
				}
			}
		}
		for len(d.Table) < k {
			e := resEntry{Name: fresh()}
			for j := c.Rng.Intn(3); j > 0; j-- {
				e.Aliases = append(e.Aliases, fresh())
			}
			d.Table = append(d.Table, e)
		}
		for tries := 0; ; tries++ {
			w := words[c.Rng.Intn(len(words))]
			switch c.Rng.Intn(10) {
			case 0, 1, 2, 3:
				d.Req = c.sgEdit(w)
			case 4, 5, 6:
				d.Req = c.sgEdit(c.sgEdit(w))
			case 7:
				d.Req = c.sgEdit(c.sgEdit(c.sgEdit(w)))
			case 8:
				d.Req = c.sgWord(3, 10)
			default:
				ml := 0
				for _, x := range words {
					if len(x) > ml {
						ml = len(x)
					}
				}
				d.Req = w + c.sgWord(ml+3-len(w), ml+6-len(w))
			}
			if !known[d.Req] && d.Req != "" {
				break
			}
		}
		cl, il := evalSuggest(d)
		class := strings.Fields(il + " -")[0]
		c.Hit("class:" + class)
		var ws []string
		for _, e := range d.Table {
			ws = append(ws, e.Name)
			ws = append(ws, e.Aliases...)
		}
		if _, near := sgClass(ws, d.Req); len(near) > 0 {
			min := 9
			for _, w := range near {
				if x := goLev(d.Req, w); x < min {
					min = x
				}
			}
			c.Hit(fmt.Sprintf("nearest-at-distance:%d", min))
			for _, e := range d.Table {
				for _, a := range e.Aliases {
					if a == near[0] {
						c.Hit("near-word-is-an-alias")
					}
				}
			}
		}
		if class == "must" || class == "oneof" {
			c.Distinct(cl)
		}
		c.Emit(cl, il, d)
	}
}
