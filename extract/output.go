package main

import (
	"go/ast"
)

// genOutput: the facts the Output model relies on — prefixWriter.writeLine performs
// its sink writes after taking the Prefixed mutex (released by a deferred Unlock), and
// groupWriter.close performs exactly one sink write; Write methods only buffer.
func genOutput() {
	l := newLean("Output", "internal/output: mutex region of prefixWriter.writeLine, sink writes of groupWriter.close.")
	p := loadDir("internal/output")
	skeleton := func(fn string, sinkExpr string, mutexExpr string) []string {
		var out []string
		fd := p.funcDecl(fn)
		if fd == nil || fd.Body == nil {
			return []string{"MISSING " + fn}
		}
		var walk func(stmts []ast.Stmt)
		walk = func(stmts []ast.Stmt) {
			for _, st := range stmts {
				s := src(st)
				switch x := st.(type) {
				case *ast.DeferStmt:
					if mutexExpr != "" && contains(s, mutexExpr+".Unlock()") {
						out = append(out, "deferUnlock")
					}
					continue
				case *ast.IfStmt:
					if x.Init != nil && contains(src(x.Init), sinkExpr) {
						out = append(out, "write")
					}
					// bodies of ifs: early returns etc.; look for sink writes inside too
					walk(x.Body.List)
					continue
				case *ast.ExprStmt:
					if mutexExpr != "" && s == mutexExpr+".Lock()" {
						out = append(out, "lock")
						continue
					}
					if mutexExpr != "" && s == mutexExpr+".Unlock()" {
						out = append(out, "unlock")
						continue
					}
				}
				if contains(s, sinkExpr) {
					out = append(out, "write")
				}
			}
		}
		walk(fd.Body.List)
		return out
	}
	l.strList("writeLineSkeleton", skeleton("prefixWriter.writeLine", "pw.writer", "pw.prefixed.mutex"))
	l.strList("groupCloseSkeleton", skeleton("groupWriter.close", "gw.writer", ""))
	l.strList("groupWriteSkeleton", skeleton("groupWriter.Write", "gw.writer", ""))
	l.strList("prefixWriteSkeleton", skeleton("prefixWriter.Write", "pw.writer", ""))
	// how Write / close reach writeOutputLines
	calls := func(fn string) []string {
		var out []string
		fd := p.funcDecl(fn)
		if fd == nil {
			return out
		}
		ast.Inspect(fd, func(n ast.Node) bool {
			if ce, ok := n.(*ast.CallExpr); ok {
				s := src(ce)
				if contains(s, "writeOutputLines(") && len(s) < 40 {
					out = append(out, s)
				}
			}
			return true
		})
		return out
	}
	l.strList("prefixWriteCalls", calls("prefixWriter.Write"))
	l.strList("prefixCloseCalls", calls("prefixWriter.close"))
	// the stdout and stderr writers WrapWriter hands out are one object (one line / group buffer, flushed by the one close)
	sameWriter := func(fn string) string {
		fd := p.funcDecl(fn)
		if fd == nil || fd.Body == nil {
			return "MISSING " + fn
		}
		res := "no-return"
		ast.Inspect(fd.Body, func(n ast.Node) bool {
			if _, ok := n.(*ast.FuncLit); ok {
				return false
			}
			if r, ok := n.(*ast.ReturnStmt); ok && len(r.Results) == 3 {
				a, aok := r.Results[0].(*ast.Ident)
				b, bok := r.Results[1].(*ast.Ident)
				if aok && bok && a.Name == b.Name {
					res = "same"
				} else {
					res = "different"
				}
			}
			return true
		})
		return res
	}
	l.str("prefixedWrapWriters", sameWriter("Prefixed.WrapWriter"))
	l.str("groupWrapWriters", sameWriter("Group.WrapWriter"))
	l.write()
}
