package main

import (
	"go/ast"
	"sort"
)

// genOutput: the facts the Output model relies on.
//   - prefixWriter.writeLine performs ONE sink write, after taking the Prefixed mutex (released by a
//     deferred Unlock); groupWriter.close performs exactly one sink write; Write methods never touch the sink;
//   - Write and close of both writers take the WRITER'S OWN mutex first and release it by a deferred Unlock
//     (several producers of one command write from separate goroutines), and the buffer is touched nowhere else;
//   - stdout and stderr handed out by WrapWriter are one object;
//   - runCommand wraps once per command and calls the closer once, after the command, with the command's error.
//
// Receiver names are read from the declarations; a sink write is a CALL whose receiver or argument is the
// writer's `writer` field (counted per call, `loop[ … ]` around the body of a for / range statement).
func genOutput() {
	l := newLean("Output", "internal/output: locks and sink writes of the prefixed / group writers; task.go: wrap / run / close order of runCommand.")
	p := loadDir("internal/output")
	recvOf := func(fd *ast.FuncDecl) string {
		if fd.Recv != nil && len(fd.Recv.List) > 0 && len(fd.Recv.List[0].Names) > 0 {
			return fd.Recv.List[0].Names[0].Name
		}
		return "_"
	}
	// number of calls in n that write to sinkExpr
	sinkCalls := func(n ast.Node, sinkExpr string) int {
		k := 0
		ast.Inspect(n, func(m ast.Node) bool {
			switch x := m.(type) {
			case *ast.FuncLit:
				return false
			case *ast.CallExpr:
				hit := false
				if se, ok := x.Fun.(*ast.SelectorExpr); ok && src(se.X) == sinkExpr {
					hit = true
				}
				for _, a := range x.Args {
					if src(a) == sinkExpr {
						hit = true
					}
				}
				if hit {
					k++
				}
			}
			return true
		})
		return k
	}
	// skeleton of fn: lock / unlock / deferUnlock of each mutex expression (suffix after the receiver), sink writes,
	// `stmt` for any other statement that precedes the first lock (so that "the lock comes first" is visible)
	skeleton := func(fn string, sinkField string, lockFirst bool, mutexFields ...string) []string {
		out := []string{}
		fd := p.funcDecl(fn)
		if fd == nil || fd.Body == nil {
			return []string{"MISSING " + fn}
		}
		r := recvOf(fd)
		sinkExpr := r + "." + sinkField
		locked := !lockFirst
		var walk func(stmts []ast.Stmt)
		walk = func(stmts []ast.Stmt) {
			for _, st := range stmts {
				s := src(st)
				isMutex := false
				for _, mf := range mutexFields {
					m := r + "." + mf
					switch x := st.(type) {
					case *ast.DeferStmt:
						if src(x.Call) == m+".Unlock()" {
							out = append(out, "deferUnlock")
							isMutex = true
						}
					case *ast.ExprStmt:
						if s == m+".Lock()" {
							out = append(out, "lock")
							locked = true
							isMutex = true
						} else if s == m+".Unlock()" {
							out = append(out, "unlock")
							isMutex = true
						}
					}
				}
				if isMutex {
					continue
				}
				if !locked && (len(out) == 0 || out[len(out)-1] != "stmt-before-lock") {
					out = append(out, "stmt-before-lock")
				}
				switch x := st.(type) {
				case *ast.DeferStmt:
					for k := sinkCalls(x, sinkExpr); k > 0; k-- {
						out = append(out, "defer:write")
					}
					continue
				case *ast.IfStmt:
					if x.Init != nil {
						for k := sinkCalls(x.Init, sinkExpr); k > 0; k-- {
							out = append(out, "write")
						}
					}
					for k := sinkCalls(x.Cond, sinkExpr); k > 0; k-- {
						out = append(out, "write")
					}
					walk(x.Body.List)
					if eb, ok := x.Else.(*ast.BlockStmt); ok {
						walk(eb.List)
					} else if ei, ok := x.Else.(*ast.IfStmt); ok {
						walk([]ast.Stmt{ei})
					}
					continue
				case *ast.ForStmt:
					out = append(out, "loop[")
					walk(x.Body.List)
					out = append(out, "]")
					if out[len(out)-2] == "loop[" {
						out = out[:len(out)-2]
					}
					continue
				case *ast.RangeStmt:
					out = append(out, "loop[")
					walk(x.Body.List)
					out = append(out, "]")
					if out[len(out)-2] == "loop[" {
						out = out[:len(out)-2]
					}
					continue
				case *ast.BlockStmt:
					walk(x.List)
					continue
				}
				for k := sinkCalls(st, sinkExpr); k > 0; k-- {
					out = append(out, "write")
				}
			}
		}
		walk(fd.Body.List)
		return out
	}
	l.strList("writeLineSkeleton", skeleton("prefixWriter.writeLine", "writer", false, "prefixed.mutex"))
	l.strList("groupCloseSkeleton", skeleton("groupWriter.close", "writer", true, "mutex"))
	l.strList("groupWriteSkeleton", skeleton("groupWriter.Write", "writer", true, "mutex"))
	l.strList("prefixWriteSkeleton", skeleton("prefixWriter.Write", "writer", true, "mutex"))
	l.strList("prefixCloseSkeleton", skeleton("prefixWriter.close", "writer", true, "mutex"))
	// the per-writer mutex is a field of the writer object itself
	var mfields []string
	for _, ty := range []string{"groupWriter", "prefixWriter"} {
		for _, fn := range p.sortedFiles() {
			ast.Inspect(p.files[fn], func(n ast.Node) bool {
				ts, ok := n.(*ast.TypeSpec)
				if !ok || ts.Name.Name != ty {
					return true
				}
				if st, ok := ts.Type.(*ast.StructType); ok {
					for _, f := range st.Fields.List {
						for _, nm := range f.Names {
							if nm.Name == "mutex" {
								mfields = append(mfields, ty+".mutex:"+src(f.Type))
							}
						}
					}
				}
				return false
			})
		}
	}
	l.strList("writerMutexFields", mfields)
	// who touches the buffers, and who calls the helpers that do
	var buffUsers, wolCallers, wlCallers []string
	for _, fd := range p.allFuncs() {
		if fd.Body == nil {
			continue
		}
		r := recvOf(fd)
		usesBuff, callsWOL, callsWL := false, false, false
		ast.Inspect(fd.Body, func(n ast.Node) bool {
			switch x := n.(type) {
			case *ast.SelectorExpr:
				if x.Sel.Name == "buff" && src(x.X) == r {
					usesBuff = true
				}
			case *ast.CallExpr:
				if se, ok := x.Fun.(*ast.SelectorExpr); ok && src(se.X) == r {
					if se.Sel.Name == "writeOutputLines" {
						callsWOL = true
					}
					if se.Sel.Name == "writeLine" {
						callsWL = true
					}
				}
			}
			return true
		})
		if usesBuff {
			buffUsers = append(buffUsers, funcName(fd))
		}
		if callsWOL {
			wolCallers = append(wolCallers, funcName(fd))
		}
		if callsWL {
			wlCallers = append(wlCallers, funcName(fd))
		}
	}
	sort.Strings(buffUsers)
	sort.Strings(wolCallers)
	sort.Strings(wlCallers)
	l.strList("buffUsers", buffUsers)
	l.strList("writeOutputLinesCallers", wolCallers)
	l.strList("writeLineCallers", wlCallers)
	// how Write / close reach writeOutputLines
	calls := func(fn string) []string {
		out := []string{}
		fd := p.funcDecl(fn)
		if fd == nil {
			return out
		}
		r := recvOf(fd)
		ast.Inspect(fd, func(n ast.Node) bool {
			if ce, ok := n.(*ast.CallExpr); ok {
				if se, ok := ce.Fun.(*ast.SelectorExpr); ok && se.Sel.Name == "writeOutputLines" && src(se.X) == r {
					out = append(out, "writeOutputLines("+srcList(ce.Args)+")")
				}
			}
			return true
		})
		return out
	}
	l.strList("prefixWriteCalls", calls("prefixWriter.Write"))
	l.strList("prefixCloseCalls", calls("prefixWriter.close"))
	// the stdout and stderr writers WrapWriter hands out are one object (one line / group buffer, flushed by the one close)
	sameWriter := func(fn string) string {
		fd := p.funcDecl(fn)
		if fd == nil || fd.Body == nil {
			return "MISSING " + fn
		}
		res := "no-return"
		ast.Inspect(fd.Body, func(n ast.Node) bool {
			if _, ok := n.(*ast.FuncLit); ok {
				return false
			}
			if r, ok := n.(*ast.ReturnStmt); ok && len(r.Results) == 3 {
				a, aok := r.Results[0].(*ast.Ident)
				b, bok := r.Results[1].(*ast.Ident)
				if aok && bok && a.Name == b.Name {
					res = "same"
				} else {
					res = "different"
				}
			}
			return true
		})
		return res
	}
	l.str("prefixedWrapWriters", sameWriter("Prefixed.WrapWriter"))
	l.str("groupWrapWriters", sameWriter("Group.WrapWriter"))

	// runCommand: in statement order, the calls that wrap the streams, run the command and close the wrapper.
	// A call inside a defer, a loop or the BODY of a conditional is marked; the argument of the closer is printed.
	tp := loadDir(".")
	var rc []string
	if fd := tp.funcDecl("Executor.runCommand"); fd == nil || fd.Body == nil {
		rc = []string{"MISSING Executor.runCommand"}
	} else {
		closerName, errName := "", ""
		var visit func(n ast.Node, ctx string)
		classify := func(ce *ast.CallExpr, ctx string) {
			switch f := ce.Fun.(type) {
			case *ast.SelectorExpr:
				if f.Sel.Name == "WrapWriter" {
					rc = append(rc, ctx+"wrap")
				}
				if f.Sel.Name == "RunCommand" && src(f.X) == "execext" {
					rc = append(rc, ctx+"run")
				}
			case *ast.Ident:
				if closerName != "" && f.Name == closerName {
					arg := srcList(ce.Args)
					if arg == errName {
						arg = "runErr"
					}
					rc = append(rc, ctx+"close("+arg+")")
				}
			}
		}
		visit = func(n ast.Node, ctx string) {
			switch x := n.(type) {
			case nil:
				return
			case *ast.AssignStmt:
				// remember the names bound by `…, closer := ….WrapWriter(…)` and `err = execext.RunCommand(…)`
				if len(x.Rhs) == 1 {
					if ce, ok := x.Rhs[0].(*ast.CallExpr); ok {
						if se, ok := ce.Fun.(*ast.SelectorExpr); ok {
							if se.Sel.Name == "WrapWriter" && len(x.Lhs) == 3 {
								closerName = src(x.Lhs[2])
							}
							if se.Sel.Name == "RunCommand" && len(x.Lhs) == 1 {
								errName = src(x.Lhs[0])
							}
						}
					}
				}
			}
			switch x := n.(type) {
			case *ast.DeferStmt:
				visit(x.Call, ctx+"defer:")
				return
			case *ast.ForStmt:
				visit(x.Body, ctx+"loop:")
				return
			case *ast.RangeStmt:
				visit(x.Body, ctx+"loop:")
				return
			case *ast.IfStmt:
				visit(x.Init, ctx)
				visit(x.Cond, ctx)
				visit(x.Body, ctx+"if:")
				visit(x.Else, ctx+"if:")
				return
			case *ast.FuncLit:
				visit(x.Body, ctx+"func:")
				return
			case *ast.CallExpr:
				for _, a := range x.Args {
					visit(a, ctx)
				}
				visit(x.Fun, ctx)
				classify(x, ctx)
				return
			case *ast.BlockStmt:
				for _, st := range x.List {
					visit(st, ctx)
				}
				return
			case *ast.CaseClause:
				for _, st := range x.Body {
					visit(st, ctx)
				}
				return
			case *ast.SwitchStmt:
				visit(x.Body, ctx)
				return
			}
			// generic: visit children one level down
			ast.Inspect(n, func(m ast.Node) bool {
				if m == n {
					return true
				}
				if m != nil {
					visit(m, ctx)
				}
				return false
			})
		}
		visit(fd.Body, "")
	}
	l.strList("runCommandSkeleton", rc)
	l.write()
}
