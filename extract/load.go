package main

import (
	"go/ast"
	"go/token"
	"sort"
	"strconv"
	"strings"
)

// Load-path facts (properties C08, C09).
//
// genNondetSites: every place on the load/compile path whose iteration order is not
// fixed by the language: `range` over a map-typed expression, and every topological
// sort of the include graph.  Syntactic typing, stdlib only: an expression is
// map-typed when it is
//   - an identifier declared in the function (parameter, var, :=) with a map type,
//     made by make(map…)/a map literal, or assigned from a call known to return a map;
//   - a selector whose field name is declared with a map type in a struct of the same
//     package;
//   - an index into a map whose value type is a map;
//   - a call of a function of the same package whose first result is a map, or of one
//     of the library functions listed in mapReturning.
// A range over slices.Sorted(maps.Keys(m)) (or sort.Strings of collected keys is NOT
// recognised: only the direct form) is reported with kind "sortedkeys".
//
// genLoad: single facts the Load model consumes.

var mapReturning = map[string]bool{
	"PredecessorMap": true, "AdjacencyMap": true, // dominikbraun/graph
	"godotenv.Read": true, "godotenv.Parse": true, "godotenv.Unmarshal": true,
}

var nondetScope = []struct {
	dir   string
	files []string // nil = every file of the directory
}{
	{"taskfile", nil},
	{"taskfile/ast", nil},
	{".", []string{"setup.go", "compiler.go", "variables.go"}},
	{"internal/env", nil},
	{"internal/fingerprint", nil},
	{"internal/deepcopy", nil},
}

type nondetSite struct{ fn, expr, kind string }

// methods / functions of the scope packages whose first result is a map, by bare name
// (used for calls through a selector into another package, e.g. env.ToCacheMap())
var globalMapFuncs = map[string]*ast.MapType{}

func genNondetSites() {
	var sites []nondetSite
	for _, sc := range nondetScope {
		for k, v := range mapFuncs(loadDir(sc.dir)) {
			globalMapFuncs[k] = v
		}
	}
	for _, sc := range nondetScope {
		p := loadDir(sc.dir)
		fields := mapFields(p)
		funcs := mapFuncs(p)
		for _, fn := range p.sortedFiles() {
			if sc.files != nil && !containsStr(sc.files, fn) {
				continue
			}
			for _, d := range p.files[fn].Decls {
				fd, ok := d.(*ast.FuncDecl)
				if !ok || fd.Body == nil {
					continue
				}
				name := pkgLabel(sc.dir) + "." + funcName(fd)
				sites = append(sites, sitesOf(name, fd, fields, funcs)...)
				sites = append(sites, errgroupSites(name, fd)...)
			}
		}
	}
	sort.SliceStable(sites, func(i, j int) bool {
		if sites[i].fn != sites[j].fn {
			return sites[i].fn < sites[j].fn
		}
		return sites[i].expr < sites[j].expr
	})
	l := newLean("NondetSites", "Map-range sites and topological sorts on the load/compile path: (function, expression, kind).\n"+
		"kind: map = range over a Go map; sortedkeys = range over slices.Sorted(maps.Keys(m)); toposort / stabletoposort = call of graph.(Stable)TopologicalSort.")
	var rows []string
	seen := map[string]bool{}
	for _, s := range sites {
		k := s.fn + "|" + s.expr + "|" + s.kind
		if seen[k] {
			continue
		}
		seen[k] = true
		rows = append(rows, "("+leanStr(s.fn)+", "+leanStr(s.expr)+", "+leanStr(s.kind)+")")
	}
	l.b.WriteString("def sites : List (String × String × String) := [" + strings.Join(rows, ",\n  ") + "]\n\n")
	l.write()
}

// errgroupSites: a function that starts goroutines with <g>.Go and returns (or otherwise uses)
// the result of <g>.Wait() gets the FIRST error IN TIME of its goroutines: which one that is
// depends on scheduling.  One site per function, kind "errgroup-wait".
func errgroupSites(name string, fd *ast.FuncDecl) []nondetSite {
	goers := map[string]bool{}
	ast.Inspect(fd.Body, func(n ast.Node) bool {
		if c, ok := n.(*ast.CallExpr); ok {
			if se, ok := c.Fun.(*ast.SelectorExpr); ok && se.Sel.Name == "Go" {
				if id, ok := se.X.(*ast.Ident); ok {
					goers[id.Name] = true
				}
			}
		}
		return true
	})
	if len(goers) == 0 {
		return nil
	}
	// is every <g>.Go(…) statement directly followed, in its own block, by a statement that waits for g?
	// then at most one goroutine of the group is in flight: the group runs them one after the other
	sequential, waits := true, false
	ast.Inspect(fd.Body, func(n ast.Node) bool {
		if c, ok := n.(*ast.CallExpr); ok {
			if se, ok := c.Fun.(*ast.SelectorExpr); ok && se.Sel.Name == "Wait" {
				if id, ok := se.X.(*ast.Ident); ok && goers[id.Name] {
					waits = true
				}
			}
		}
		bs, ok := n.(*ast.BlockStmt)
		if !ok {
			return true
		}
		for i, st := range bs.List {
			es, ok := st.(*ast.ExprStmt)
			if !ok {
				continue
			}
			c, ok := es.X.(*ast.CallExpr)
			if !ok {
				continue
			}
			se, ok := c.Fun.(*ast.SelectorExpr)
			if !ok || se.Sel.Name != "Go" {
				continue
			}
			id, ok := se.X.(*ast.Ident)
			if !ok || !goers[id.Name] {
				continue
			}
			next := ""
			if i+1 < len(bs.List) {
				next = src(bs.List[i+1])
			}
			if !strings.Contains(strings.SplitN(next, "{", 2)[0], id.Name+".Wait()") {
				sequential = false
			}
		}
		return true
	})
	if !waits {
		return nil
	}
	kind := "errgroup-wait"
	if sequential {
		kind = "errgroup-sequential"
	}
	return []nondetSite{{name, "errgroup.Go/Wait", kind}}
}

func leanStr(s string) string {
	var b strings.Builder
	b.WriteByte('"')
	for _, r := range s {
		switch r {
		case '"', '\\':
			b.WriteByte('\\')
			b.WriteRune(r)
		case '\n':
			b.WriteString("\\n")
		case '\t':
			b.WriteString("\\t")
		default:
			b.WriteRune(r)
		}
	}
	b.WriteByte('"')
	return b.String()
}

func pkgLabel(dir string) string {
	if dir == "." {
		return "task"
	}
	return dir
}

func containsStr(xs []string, s string) bool {
	for _, x := range xs {
		if x == s {
			return true
		}
	}
	return false
}

// mapFields: field name → map type, for every struct of the package.
func mapFields(p *pkgFiles) map[string]*ast.MapType {
	out := map[string]*ast.MapType{}
	for _, fn := range p.sortedFiles() {
		ast.Inspect(p.files[fn], func(n ast.Node) bool {
			st, ok := n.(*ast.StructType)
			if !ok {
				return true
			}
			for _, f := range st.Fields.List {
				if mt, ok := f.Type.(*ast.MapType); ok {
					for _, nm := range f.Names {
						out[nm.Name] = mt
					}
				}
			}
			return true
		})
	}
	return out
}

// mapFuncs: function / method name → map type of its first result.
func mapFuncs(p *pkgFiles) map[string]*ast.MapType {
	out := map[string]*ast.MapType{}
	for _, fd := range p.allFuncs() {
		if fd.Type.Results == nil || len(fd.Type.Results.List) == 0 {
			continue
		}
		if mt, ok := fd.Type.Results.List[0].Type.(*ast.MapType); ok {
			out[fd.Name.Name] = mt
		}
	}
	return out
}

var anyMap = &ast.MapType{Key: ast.NewIdent("?"), Value: ast.NewIdent("?")}

// PredecessorMap / AdjacencyMap: map[K]map[K]Edge[K]
var mapOfMaps = &ast.MapType{Key: ast.NewIdent("?"), Value: anyMap}

func sitesOf(name string, fd *ast.FuncDecl, fields, funcs map[string]*ast.MapType) []nondetSite {
	env := map[string]*ast.MapType{}
	bind := func(id *ast.Ident, t ast.Expr) {
		if mt, ok := t.(*ast.MapType); ok && id != nil && id.Name != "_" {
			env[id.Name] = mt
		}
	}
	for _, fl := range []*ast.FieldList{fd.Recv, fd.Type.Params, fd.Type.Results} {
		if fl == nil {
			continue
		}
		for _, f := range fl.List {
			for _, nm := range f.Names {
				bind(nm, f.Type)
			}
		}
	}
	var typeOf func(e ast.Expr) *ast.MapType
	typeOf = func(e ast.Expr) *ast.MapType {
		switch x := e.(type) {
		case *ast.ParenExpr:
			return typeOf(x.X)
		case *ast.Ident:
			return env[x.Name]
		case *ast.SelectorExpr:
			return fields[x.Sel.Name]
		case *ast.IndexExpr:
			if mt := typeOf(x.X); mt != nil {
				if v, ok := mt.Value.(*ast.MapType); ok {
					return v
				}
			}
		case *ast.CompositeLit:
			if mt, ok := x.Type.(*ast.MapType); ok {
				return mt
			}
		case *ast.CallExpr:
			switch f := x.Fun.(type) {
			case *ast.Ident:
				if f.Name == "make" && len(x.Args) > 0 {
					if mt, ok := x.Args[0].(*ast.MapType); ok {
						return mt
					}
				}
				if mt, ok := funcs[f.Name]; ok {
					return mt
				}
			case *ast.SelectorExpr:
				if f.Sel.Name == "PredecessorMap" || f.Sel.Name == "AdjacencyMap" {
					return mapOfMaps
				}
				if mapReturning[f.Sel.Name] || mapReturning[src(f)] {
					return anyMap
				}
				if mt, ok := funcs[f.Sel.Name]; ok {
					return mt
				}
				if mt, ok := globalMapFuncs[f.Sel.Name]; ok {
					return mt
				}
			}
		}
		return nil
	}
	var sites []nondetSite
	ast.Inspect(fd.Body, func(n ast.Node) bool {
		switch x := n.(type) {
		case *ast.DeclStmt:
			if gd, ok := x.Decl.(*ast.GenDecl); ok && gd.Tok == token.VAR {
				for _, s := range gd.Specs {
					vs := s.(*ast.ValueSpec)
					for i, nm := range vs.Names {
						if vs.Type != nil {
							bind(nm, vs.Type)
						} else if i < len(vs.Values) {
							if mt := typeOf(vs.Values[i]); mt != nil {
								env[nm.Name] = mt
							}
						}
					}
				}
			}
		case *ast.AssignStmt:
			if len(x.Rhs) == 1 {
				if mt := typeOf(x.Rhs[0]); mt != nil {
					if id, ok := x.Lhs[0].(*ast.Ident); ok && id.Name != "_" {
						env[id.Name] = mt
					}
				}
			} else {
				for i := range x.Lhs {
					if i < len(x.Rhs) {
						if mt := typeOf(x.Rhs[i]); mt != nil {
							if id, ok := x.Lhs[i].(*ast.Ident); ok && id.Name != "_" {
								env[id.Name] = mt
							}
						}
					}
				}
			}
		case *ast.TypeSwitchStmt:
			// switch v := x.(type) { case map[…]…: … }: v is a map in that clause
			if as, ok := x.Assign.(*ast.AssignStmt); ok && len(as.Lhs) == 1 {
				if id, ok := as.Lhs[0].(*ast.Ident); ok {
					for _, cc := range x.Body.List {
						for _, t := range cc.(*ast.CaseClause).List {
							if mt, ok := t.(*ast.MapType); ok {
								env[id.Name] = mt
							}
						}
					}
				}
			}
		case *ast.RangeStmt:
			// the range variables of a map-of-maps are maps themselves
			if mt := typeOf(x.X); mt != nil {
				sites = append(sites, nondetSite{name, "range " + src(x.X), "map"})
				if v, ok := mt.Value.(*ast.MapType); ok {
					if id, ok := x.Value.(*ast.Ident); ok {
						env[id.Name] = v
					}
				}
			} else if isSortedKeys(x.X, typeOf) {
				sites = append(sites, nondetSite{name, "range " + src(x.X), "sortedkeys"})
			}
		case *ast.CallExpr:
			if se, ok := x.Fun.(*ast.SelectorExpr); ok {
				if id, ok := se.X.(*ast.Ident); ok && id.Name == "graph" {
					switch se.Sel.Name {
					case "TopologicalSort":
						sites = append(sites, nondetSite{name, "graph.TopologicalSort", "toposort"})
					case "StableTopologicalSort":
						// the order is canonical only if the comparator is a strict TOTAL order on the vertex keys:
						// `func(a, b K) bool { return a < b }` (parameter names normalised); anything else is "custom"
						kind := "stabletoposort-custom"
						if len(x.Args) == 2 {
							if fl, ok := x.Args[1].(*ast.FuncLit); ok && fl.Type.Params != nil && len(fl.Body.List) == 1 {
								var ps []string
								for _, f := range fl.Type.Params.List {
									for _, n := range f.Names {
										ps = append(ps, n.Name)
									}
								}
								if r, ok := fl.Body.List[0].(*ast.ReturnStmt); ok && len(r.Results) == 1 && len(ps) == 2 {
									if be, ok := r.Results[0].(*ast.BinaryExpr); ok && be.Op.String() == "<" {
										l, lok := be.X.(*ast.Ident)
										rr, rok := be.Y.(*ast.Ident)
										if lok && rok && l.Name == ps[0] && rr.Name == ps[1] {
											kind = "stabletoposort"
										}
									}
								}
							}
						}
						sites = append(sites, nondetSite{name, "graph.StableTopologicalSort", kind})
					}
				}
			}
		}
		return true
	})
	return sites
}

// isSortedKeys: slices.Sorted(maps.Keys(m)) with m map-typed.
func isSortedKeys(e ast.Expr, typeOf func(ast.Expr) *ast.MapType) bool {
	c, ok := e.(*ast.CallExpr)
	if !ok || src(c.Fun) != "slices.Sorted" || len(c.Args) != 1 {
		return false
	}
	k, ok := c.Args[0].(*ast.CallExpr)
	if !ok || src(k.Fun) != "maps.Keys" || len(k.Args) != 1 {
		return false
	}
	return typeOf(k.Args[0]) != nil
}

// genLoad: facts about Taskfile.Merge and Reader.include.
func genLoad() {
	l := newLean("Load", "Load-path facts: Taskfile.Merge's argument to Tasks.Merge, the include literal of Reader.include, where the reader attaches edge data, the renaming functions of Tasks.Merge and the resolution of root references.")
	p := loadDir("taskfile/ast")
	// t1.Tasks.Merge(t2.Tasks, include, <arg>)
	arg := ""
	if fd := p.funcDecl("Taskfile.Merge"); fd != nil {
		ast.Inspect(fd, func(n ast.Node) bool {
			c, ok := n.(*ast.CallExpr)
			if ok && src(c.Fun) == "t1.Tasks.Merge" && len(c.Args) == 3 {
				arg = src(c.Args[2])
			}
			return true
		})
	}
	l.str("tasksMergeVarsArg", arg)
	l.bool("mergePassesIncludedVars", arg == "t2.Vars")
	// order of the checks and merges in Taskfile.Merge
	var steps []string
	if fd := p.funcDecl("Taskfile.Merge"); fd != nil {
		ast.Inspect(fd, func(n ast.Node) bool {
			switch x := n.(type) {
			case *ast.CallExpr:
				switch s := src(x.Fun); s {
				case "t1.Version.Equal", "t1.Vars.Merge", "t1.Env.Merge", "t1.Tasks.Merge":
					steps = append(steps, s)
				}
			case *ast.ReturnStmt:
				if len(x.Results) == 1 && src(x.Results[0]) == "ErrIncludedTaskfilesCantHaveDotenvs" {
					steps = append(steps, "dotenv-error")
				}
			}
			return true
		})
	}
	l.strList("taskfileMergeSteps", steps)
	// Reader.include: keys of the &ast.Include{…} literal; is the edge data attached
	// inside the goroutines (completion order) or after g.Wait() (declaration order)?
	r := loadDir("taskfile")
	if fd := r.funcDecl("Reader.include"); fd != nil {
		l.strList("readerIncludeLiteral", literalKeys(fd, "ast.Include"))
		inGo, afterWait := false, false
		var waitPos token.Pos
		ast.Inspect(fd, func(n ast.Node) bool {
			if c, ok := n.(*ast.CallExpr); ok && src(c.Fun) == "g.Wait" && waitPos == 0 {
				waitPos = c.Pos()
			}
			return true
		})
		var walk func(n ast.Node, inFuncLit bool)
		walk = func(n ast.Node, inFuncLit bool) {
			ast.Inspect(n, func(m ast.Node) bool {
				switch x := m.(type) {
				case *ast.FuncLit:
					if m != n {
						walk(x.Body, true)
						return false
					}
				case *ast.CallExpr:
					if s := src(x.Fun); s == "r.graph.AddEdge" || s == "r.graph.UpdateEdge" {
						if inFuncLit {
							inGo = true
						} else if waitPos != 0 && x.Pos() > waitPos {
							afterWait = true
						}
					}
				}
				return true
			})
		}
		walk(fd.Body, false)
		l.bool("edgesAddedInGoroutines", inGo)
		l.bool("edgesAddedAfterWait", afterWait)
	}
	genHandDecoded(l, p)
	genFirstError(l, r)
	l.write()
}

// genHandDecoded: the mappings of taskfile/ast that are decoded by walking the YAML node
// by hand (a loop stepping by two over node.Content) bypass yaml.v3's duplicate-key check;
// for each such function: does the loop refuse a key used twice (an
// `if err := duplicateKeyError(node, i); err != nil { return err }` before the first Set)?
// And the skeleton of duplicateKeyError itself (locals and parameters as placeholders).
func genHandDecoded(l *leanFile, p *pkgFiles) {
	var rows [][2]string
	for _, fd := range p.allFuncs() {
		if fd.Body == nil || funcName(fd) == "duplicateKeyError" {
			continue
		}
		ast.Inspect(fd.Body, func(n ast.Node) bool {
			fs, ok := n.(*ast.ForStmt)
			if !ok || fs.Post == nil {
				return true
			}
			post, ok := fs.Post.(*ast.AssignStmt)
			if !ok || post.Tok != token.ADD_ASSIGN || len(post.Lhs) != 1 || len(post.Rhs) != 1 || src(post.Rhs[0]) != "2" {
				return true
			}
			iv := src(post.Lhs[0])
			node := ""
			ast.Inspect(fs.Body, func(m ast.Node) bool {
				if ix, ok := m.(*ast.IndexExpr); ok && src(ix.Index) == iv && strings.HasSuffix(src(ix.X), ".Content") {
					node = strings.TrimSuffix(src(ix.X), ".Content")
				}
				return true
			})
			if node == "" {
				return true
			}
			status := "no-dupcheck"
			checked := false
			for _, st := range fs.Body.List {
				if is, ok := st.(*ast.IfStmt); ok && is.Init != nil {
					if as, ok := is.Init.(*ast.AssignStmt); ok && len(as.Rhs) == 1 && len(as.Lhs) == 1 &&
						src(as.Rhs[0]) == "duplicateKeyError("+node+", "+iv+")" && src(is.Cond) == src(as.Lhs[0])+" != nil" &&
						len(is.Body.List) == 1 && src(is.Body.List[0]) == "return "+src(as.Lhs[0]) {
						checked = true
					}
				}
				hasSet := false
				ast.Inspect(st, func(m ast.Node) bool {
					if c, ok := m.(*ast.CallExpr); ok {
						if se, ok := c.Fun.(*ast.SelectorExpr); ok && se.Sel.Name == "Set" {
							hasSet = true
						}
					}
					return true
				})
				if hasSet {
					if checked {
						status = "dupcheck-before-set"
					}
					break
				}
			}
			rows = append(rows, [2]string{funcName(fd), status})
			return true
		})
	}
	sort.Slice(rows, func(i, j int) bool { return rows[i][0] < rows[j][0] })
	l.pairList("handDecodedMappings", rows)
	var body []string
	if fd := p.funcDecl("duplicateKeyError"); fd != nil {
		locals := localsOf(fd)
		if fd.Type.Params != nil {
			for _, f := range fd.Type.Params.List {
				for _, id := range f.Names {
					locals[id.Name] = "‹p:" + src(f.Type) + "›"
				}
			}
		}
		ast.Inspect(fd.Body, func(n ast.Node) bool {
			switch x := n.(type) {
			case *ast.AssignStmt:
				if x.Tok == token.DEFINE {
					body = append(body, srcL(x, locals))
				}
			case *ast.ForStmt:
				body = append(body, "for "+srcL(x.Init, locals)+"; "+srcL(x.Cond, locals)+"; "+srcL(x.Post, locals))
				for _, st := range x.Body.List {
					if as, ok := st.(*ast.AssignStmt); ok && as.Tok == token.DEFINE {
						body = append(body, srcL(as, locals))
					}
					if is, ok := st.(*ast.IfStmt); ok {
						// operands of && are printed sorted: their order carries no meaning
						parts := strings.Split(srcL(is.Cond, locals), " && ")
						sort.Strings(parts)
						body = append(body, "if "+strings.Join(parts, " && "))
						for _, rs := range is.Body.List {
							if r, ok := rs.(*ast.ReturnStmt); ok && len(r.Results) == 1 {
								if c, ok := r.Results[0].(*ast.CallExpr); ok {
									body = append(body, "return "+strings.SplitN(srcL(c.Fun, locals), "(", 2)[0]+"(…)")
								}
							}
						}
					}
				}
				return false
			case *ast.ReturnStmt:
				body = append(body, srcL(x, locals))
			}
			return true
		})
	}
	l.strList("duplicateKeyCheck", body)
}


// genFirstError: how Reader.Read chooses the error it reports (C09).
//   readErrorBranch: the statements of the `if err := r.include(…); err != nil` block of Reader.Read;
//   firstErrorWalk:  the skeleton of Reader.firstError: guards and returns in source order, the range
//                    over the recorded includes, the recursive call;
//   includeRecords:  in Reader.include, where the records are written: `result.err = …` after a failed
//                    readNode, how many `return fail(err)` sites the goroutine has and how many plain
//                    `return err` remain in it before the recursion, and the assignment of the location.
// Locals are printed by placeholders.
func genFirstError(l *leanFile, r *pkgFiles) {
	var branch []string
	if fd := r.funcDecl("Reader.Read"); fd != nil {
		locals := localsOf(fd)
		ast.Inspect(fd.Body, func(n ast.Node) bool {
			is, ok := n.(*ast.IfStmt)
			if !ok || is.Init == nil || !strings.Contains(src(is.Init), ".include(") || len(branch) > 0 {
				return true
			}
			for _, st := range is.Body.List {
				switch x := st.(type) {
				case *ast.IfStmt:
					branch = append(branch, "if "+srcL(x.Init, locals)+"; "+srcL(x.Cond, locals))
					for _, st2 := range x.Body.List {
						branch = append(branch, "  "+srcL(st2, locals))
					}
				default:
					branch = append(branch, srcL(st, locals))
				}
			}
			return false
		})
	}
	l.strList("readErrorBranch", branch)
	var walk []string
	if fd := r.funcDecl("Reader.firstError"); fd != nil {
		locals := localsOf(fd)
		if fd.Type.Params != nil {
			for k, f := range fd.Type.Params.List {
				for _, id := range f.Names {
					locals[id.Name] = "‹p" + strconv.Itoa(k) + "›"
				}
			}
		}
		var visit func(list []ast.Stmt, indent string)
		visit = func(list []ast.Stmt, indent string) {
			for _, st := range list {
				switch x := st.(type) {
				case *ast.IfStmt:
					h := "if "
					if x.Init != nil {
						h += srcL(x.Init, locals) + "; "
					}
					parts := strings.Split(srcL(x.Cond, locals), " || ")
					sort.Strings(parts)
					walk = append(walk, indent+h+strings.Join(parts, " || "))
					visit(x.Body.List, indent+"  ")
				case *ast.RangeStmt:
					walk = append(walk, indent+"range "+srcL(x.X, locals))
					visit(x.Body.List, indent+"  ")
				case *ast.ReturnStmt, *ast.BranchStmt, *ast.AssignStmt:
					walk = append(walk, indent+srcL(st, locals))
				}
			}
		}
		visit(fd.Body.List, "")
	}
	l.strList("firstErrorWalk", walk)
	var rec []string
	if fd := r.funcDecl("Reader.include"); fd != nil {
		failSites, plainBefore, afterRec := 0, 0, 0
		recursed := false
		ast.Inspect(fd.Body, func(n ast.Node) bool {
			switch x := n.(type) {
			case *ast.AssignStmt:
				if len(x.Lhs) == 1 && len(x.Rhs) == 1 {
					lhs := src(x.Lhs[0])
					if strings.HasSuffix(lhs, ".err") && !strings.Contains(lhs, "[") {
						rec = append(rec, "file-error-recorded-after:"+prevCall(fd, x))
					}
					if strings.HasSuffix(lhs, "].location") {
						rec = append(rec, "location-recorded:"+strings.SplitN(src(x.Rhs[0]), ".", 2)[1])
					}
				}
			case *ast.FuncLit:
				// the goroutine body: the literal handed to <g>.Go
				if !strings.Contains(src(x), ".include(") {
					return true
				}
				ast.Inspect(x.Body, func(m ast.Node) bool {
					switch y := m.(type) {
					case *ast.FuncLit:
						return m == ast.Node(x.Body) // do not descend into nested literals (fail itself)
					case *ast.AssignStmt:
						if len(y.Lhs) == 1 && len(y.Rhs) == 1 && strings.HasSuffix(src(y.Lhs[0]), "].location") && !recursed {
							rec = append(rec, "location-recorded-before-recursion:"+strings.SplitN(src(y.Rhs[0]), ".", 2)[1])
						}
					case *ast.CallExpr:
						if se, ok := y.Fun.(*ast.SelectorExpr); ok && se.Sel.Name == "include" {
							recursed = true
						}
					case *ast.ReturnStmt:
						if len(y.Results) == 1 {
							switch s := src(y.Results[0]); {
							case strings.HasPrefix(s, "fail("):
								failSites++
							case s != "nil" && !recursed:
								plainBefore++
							case s != "nil":
								afterRec++
							}
						}
					}
					return true
				})
				return false
			}
			return true
		})
		rec = append(rec, "goroutine:fail-returns="+strconv.Itoa(failSites), "goroutine:unrecorded-error-returns-before-recursion="+strconv.Itoa(plainBefore),
			"goroutine:error-returns-from-recursion-on="+strconv.Itoa(afterRec))
	}
	l.strList("includeRecords", rec)
}

// prevCall: the callee of the last assignment from a call that precedes st in the same block of fd.
func prevCall(fd *ast.FuncDecl, st ast.Stmt) string {
	out := ""
	ast.Inspect(fd.Body, func(n ast.Node) bool {
		bs, ok := n.(*ast.BlockStmt)
		if !ok {
			return true
		}
		for _, s := range bs.List {
			found := false
			ast.Inspect(s, func(m ast.Node) bool {
				if m == ast.Node(st) {
					found = true
				}
				return !found
			})
			if found && out == "" {
				// look back in the enclosing function for the latest call assignment before st
				last := ""
				ast.Inspect(fd.Body, func(m ast.Node) bool {
					if as, ok := m.(*ast.AssignStmt); ok && as.Pos() < st.Pos() && len(as.Rhs) == 1 {
						if c, ok := as.Rhs[0].(*ast.CallExpr); ok {
							if se, ok := c.Fun.(*ast.SelectorExpr); ok {
								last = se.Sel.Name
							}
						}
					}
					return true
				})
				out = last
			}
		}
		return true
	})
	return out
}
