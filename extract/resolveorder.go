package main

import (
	"go/ast"
	"strings"
)

// genResolveOrder: the order of the lookups in Executor.GetTask / FindMatchingTasks and the
// regular expression Task.WildcardMatch builds — exact name, then wildcard patterns in table
// order (first match), then aliases (unique, else conflict, else not found).  Tokens carry
// callee and error-type names and the shape of `len(x) OP n` conditions, no local names.
func genResolveOrder() {
	l := newLean("ResolveOrder", "Lookup order of task name resolution (GetTask, FindMatchingTasks) and the wildcard regexp.")
	root := loadDir(".")
	astDir := loadDir("taskfile/ast")
	tokens := func(fd *ast.FuncDecl) []string {
		var seq []string
		if fd == nil {
			return seq
		}
		ast.Inspect(fd.Body, func(n ast.Node) bool {
			switch x := n.(type) {
			case *ast.IfStmt:
				if be, ok := x.Cond.(*ast.BinaryExpr); ok {
					if c, ok := be.X.(*ast.CallExpr); ok {
						if id, ok := c.Fun.(*ast.Ident); ok && id.Name == "len" {
							seq = append(seq, "if:len"+be.Op.String()+src(be.Y))
						}
					}
				}
				if c, ok := x.Cond.(*ast.CallExpr); ok {
					if se, ok := c.Fun.(*ast.SelectorExpr); ok {
						args := ""
						if len(c.Args) > 0 {
							if a, ok := c.Args[0].(*ast.SelectorExpr); ok {
								args = ":" + a.Sel.Name
							}
						}
						seq = append(seq, "if:"+src(se.X)+"."+se.Sel.Name+args)
					}
				}
			case *ast.RangeStmt:
				if c, ok := x.X.(*ast.CallExpr); ok {
					if se, ok := c.Fun.(*ast.SelectorExpr); ok {
						arg := ""
						if len(c.Args) == 1 {
							arg = "(" + src(c.Args[0]) + ")"
						}
						seq = append(seq, "range:"+se.Sel.Name+arg)
					}
				}
			case *ast.CallExpr:
				if se, ok := x.Fun.(*ast.SelectorExpr); ok {
					switch se.Sel.Name {
					case "FindMatchingTasks", "WildcardMatch", "SpellCheck":
						seq = append(seq, "call:"+se.Sel.Name)
					case "Get":
						if strings.HasSuffix(src(se.X), "Tasks") {
							seq = append(seq, "call:Tasks.Get")
						}
					case "Set":
						if len(x.Args) > 0 {
							seq = append(seq, "set:"+strings.Trim(src(x.Args[0]), "\""))
						}
					}
				}
			case *ast.IndexExpr:
				seq = append(seq, "index:"+src(x.Index))
			case *ast.CompositeLit:
				if se, ok := x.Type.(*ast.SelectorExpr); ok && strings.HasSuffix(se.Sel.Name, "Error") {
					seq = append(seq, "err:"+se.Sel.Name)
				}
			case *ast.ReturnStmt:
				if len(x.Results) > 0 {
					if id, ok := x.Results[0].(*ast.Ident); ok && id.Name == "nil" {
						seq = append(seq, "return:nil")
					} else {
						seq = append(seq, "return")
					}
				}
			}
			return true
		})
		return seq
	}
	l.strList("getTask", tokens(root.funcDecl("Executor.GetTask")))
	l.strList("findMatchingTasks", tokens(root.funcDecl("Executor.FindMatchingTasks")))
	// the pattern
	rx := ""
	if fd := astDir.funcDecl("Task.WildcardMatch"); fd != nil {
		ast.Inspect(fd.Body, func(n ast.Node) bool {
			if as, ok := n.(*ast.AssignStmt); ok && len(as.Rhs) == 1 && rx == "" {
				if c, ok := as.Rhs[0].(*ast.CallExpr); ok && src(c.Fun) == "fmt.Sprintf" {
					rx = src(c)
				}
			}
			return true
		})
	}
	l.str("wildcardRegexp", strings.ReplaceAll(rx, "t.Task", "‹name›"))
	l.strList("wildcardMatch", tokens(astDir.funcDecl("Task.WildcardMatch")))
	l.write()
}
