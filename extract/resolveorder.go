package main

import (
	"go/ast"
	"strings"
)

// genResolveOrder: the order of the lookups in Executor.GetTask / FindMatchingTasks and the
// regular expression Task.WildcardMatch builds — exact name, then wildcard patterns in table
// order (first match), then aliases (unique, else conflict, else not found).  Tokens carry
// callee and error-type names and the shape of `len(x) OP n` conditions, no local names.
func genResolveOrder() {
	l := newLean("ResolveOrder", "Lookup order of task name resolution (GetTask, FindMatchingTasks) and the wildcard regexp.")
	root := loadDir(".")
	astDir := loadDir("taskfile/ast")
	tokens := func(fd *ast.FuncDecl) []string {
		var seq []string
		if fd == nil {
			return seq
		}
		ast.Inspect(fd.Body, func(n ast.Node) bool {
			switch x := n.(type) {
			case *ast.IfStmt:
				if be, ok := x.Cond.(*ast.BinaryExpr); ok {
					if c, ok := be.X.(*ast.CallExpr); ok {
						if id, ok := c.Fun.(*ast.Ident); ok && id.Name == "len" {
							seq = append(seq, "if:len"+be.Op.String()+src(be.Y))
						}
					}
				}
				if c, ok := x.Cond.(*ast.CallExpr); ok {
					if se, ok := c.Fun.(*ast.SelectorExpr); ok {
						args := ""
						if len(c.Args) > 0 {
							if a, ok := c.Args[0].(*ast.SelectorExpr); ok {
								args = ":" + a.Sel.Name
							}
						}
						seq = append(seq, "if:"+src(se.X)+"."+se.Sel.Name+args)
					}
				}
			case *ast.RangeStmt:
				if c, ok := x.X.(*ast.CallExpr); ok {
					if se, ok := c.Fun.(*ast.SelectorExpr); ok {
						arg := ""
						if len(c.Args) == 1 {
							arg = "(" + src(c.Args[0]) + ")"
						}
						seq = append(seq, "range:"+se.Sel.Name+arg)
					}
				}
			case *ast.CallExpr:
				if se, ok := x.Fun.(*ast.SelectorExpr); ok {
					switch se.Sel.Name {
					case "FindMatchingTasks", "WildcardMatch", "SpellCheck":
						seq = append(seq, "call:"+se.Sel.Name)
					case "Get":
						if strings.HasSuffix(src(se.X), "Tasks") {
							seq = append(seq, "call:Tasks.Get")
						}
					case "Set":
						if len(x.Args) > 0 {
							seq = append(seq, "set:"+strings.Trim(src(x.Args[0]), "\""))
						}
					}
				}
			case *ast.IndexExpr:
				seq = append(seq, "index:"+src(x.Index))
			case *ast.CompositeLit:
				if se, ok := x.Type.(*ast.SelectorExpr); ok && strings.HasSuffix(se.Sel.Name, "Error") {
					seq = append(seq, "err:"+se.Sel.Name)
				}
			case *ast.ReturnStmt:
				if len(x.Results) > 0 {
					if id, ok := x.Results[0].(*ast.Ident); ok && id.Name == "nil" {
						seq = append(seq, "return:nil")
					} else {
						seq = append(seq, "return")
					}
				}
			}
			return true
		})
		return seq
	}
	l.strList("getTask", tokens(root.funcDecl("Executor.GetTask")))
	l.strList("findMatchingTasks", tokens(root.funcDecl("Executor.FindMatchingTasks")))
	// the pattern
	rx := ""
	if fd := astDir.funcDecl("Task.WildcardMatch"); fd != nil {
		ast.Inspect(fd.Body, func(n ast.Node) bool {
			if as, ok := n.(*ast.AssignStmt); ok && len(as.Rhs) == 1 && rx == "" {
				if c, ok := as.Rhs[0].(*ast.CallExpr); ok && src(c.Fun) == "fmt.Sprintf" {
					rx = src(c)
				}
			}
			return true
		})
	}
	l.strList("runUnknown", runUnknownReturns(root.funcDecl("Executor.Run")))
	l.strList("setupSteps", setupSteps(root))
	l.strList("fuzzyTrain", fuzzyTrain(root.funcDecl("Executor.setupFuzzyModel")))
	l.str("wildcardRegexp", strings.ReplaceAll(rx, "t.Task", "‹name›"))
	l.strList("wildcardMatch", tokens(astDir.funcDecl("Task.WildcardMatch")))
	l.write()
}

// runUnknownReturns: what Executor.Run returns from the block that handles a failed GetTask
// (the first `if <err> != nil` after `<task>, <err> := e.GetTask(call)`): every return
// statement of the block, named by where the returned error comes from — the GetTask call,
// or a call made inside the block (`ListTasks`).  Local names do not appear.
func runUnknownReturns(fd *ast.FuncDecl) []string {
	var out []string
	if fd == nil {
		return out
	}
	var block *ast.IfStmt
	errName := ""
	ast.Inspect(fd.Body, func(n ast.Node) bool {
		if block != nil {
			return false
		}
		bs, ok := n.(*ast.BlockStmt)
		if !ok {
			return true
		}
		for i, st := range bs.List {
			as, ok := st.(*ast.AssignStmt)
			if !ok || len(as.Rhs) != 1 || len(as.Lhs) != 2 {
				continue
			}
			c, ok := as.Rhs[0].(*ast.CallExpr)
			if !ok || !strings.HasSuffix(src(c.Fun), ".GetTask") || i+1 >= len(bs.List) {
				continue
			}
			if is, ok := bs.List[i+1].(*ast.IfStmt); ok && src(is.Cond) == src(as.Lhs[1])+" != nil" {
				block, errName = is, src(as.Lhs[1])
				return false
			}
		}
		return true
	})
	if block == nil {
		return out
	}
	// origin of the name errName at a given point: shadowed by an if-init inside the block?
	var walk func(n ast.Node, origin string)
	walk = func(n ast.Node, origin string) {
		ast.Inspect(n, func(m ast.Node) bool {
			switch x := m.(type) {
			case *ast.IfStmt:
				if m == n {
					return true
				}
				o := origin
				if as, ok := x.Init.(*ast.AssignStmt); ok && len(as.Rhs) == 1 {
					if c, ok := as.Rhs[0].(*ast.CallExpr); ok {
						for _, lh := range as.Lhs {
							if src(lh) == errName {
								if se, ok := c.Fun.(*ast.SelectorExpr); ok {
									o = se.Sel.Name
								} else {
									o = src(c.Fun)
								}
							}
						}
					}
				}
				walk(x.Body, o)
				if x.Else != nil {
					walk(x.Else, origin)
				}
				return false
			case *ast.CallExpr:
				if se, ok := x.Fun.(*ast.SelectorExpr); ok && se.Sel.Name == "ListTasks" {
					out = append(out, "call:ListTasks")
				}
			case *ast.ReturnStmt:
				if len(x.Results) == 1 {
					if src(x.Results[0]) == errName {
						out = append(out, "return:error-of-"+origin)
					} else {
						out = append(out, "return:other")
					}
				}
			}
			return true
		})
	}
	walk(block.Body, "GetTask")
	return out
}

// setupSteps: the methods of the executor that Executor.Setup calls, in order.
func setupSteps(root *pkgFiles) []string {
	var out []string
	fd := root.funcDecl("Executor.Setup")
	if fd == nil {
		return out
	}
	ast.Inspect(fd.Body, func(n ast.Node) bool {
		if c, ok := n.(*ast.CallExpr); ok {
			if se, ok := c.Fun.(*ast.SelectorExpr); ok {
				if id, ok := se.X.(*ast.Ident); ok && fd.Recv != nil && len(fd.Recv.List) == 1 && len(fd.Recv.List[0].Names) == 1 &&
					id.Name == fd.Recv.List[0].Names[0].Name {
					out = append(out, se.Sel.Name)
				}
			}
		}
		return true
	})
	return out
}

// fuzzyTrain: what setupFuzzyModel feeds the spelling model: the ranges it iterates, what
// is appended to the word list inside them (by field / range variable role), and the call
// that trains the model.  Locals are named by role (‹key›, ‹value› of the range; ‹words›).
func fuzzyTrain(fd *ast.FuncDecl) []string {
	var out []string
	if fd == nil {
		return out
	}
	words := ""
	ast.Inspect(fd.Body, func(n ast.Node) bool {
		switch x := n.(type) {
		case *ast.IfStmt:
			if be, ok := x.Cond.(*ast.BinaryExpr); ok {
				if se, ok := be.X.(*ast.SelectorExpr); ok && src(be.Y) == "nil" && len(x.Body.List) == 1 {
					if _, ok := x.Body.List[0].(*ast.ReturnStmt); ok {
						out = append(out, "guard:"+se.Sel.Name+be.Op.String()+"nil:return")
					}
				}
			}
		case *ast.RangeStmt:
			k, v := "", ""
			if x.Key != nil {
				k = src(x.Key)
			}
			if x.Value != nil {
				v = src(x.Value)
			}
			rng := src(x.X)
			if c, ok := x.X.(*ast.CallExpr); ok {
				if se, ok := c.Fun.(*ast.SelectorExpr); ok {
					rng = se.Sel.Name
					if s2, ok := se.X.(*ast.SelectorExpr); ok {
						rng = s2.Sel.Name + "." + rng
					}
					args := []string{}
					for _, a := range c.Args {
						args = append(args, src(a))
					}
					rng += "(" + strings.Join(args, ",") + ")"
				}
			}
			role := func(e ast.Expr) string {
				t := src(e)
				if k != "" {
					t = replaceIdent(t, k, "‹key›")
				}
				if v != "" {
					t = replaceIdent(t, v, "‹value›")
				}
				if words != "" {
					t = replaceIdent(t, words, "‹words›")
				}
				return t
			}
			if words != "" {
				rng = replaceIdent(rng, words, "‹words›")
			}
			out = append(out, "range:"+rng)
			for _, st := range x.Body.List {
				if as, ok := st.(*ast.AssignStmt); ok && len(as.Lhs) == 1 && len(as.Rhs) == 1 {
					if words == "" {
						words = src(as.Lhs[0])
					}
					out = append(out, "  "+role(as.Lhs[0])+" = "+role(as.Rhs[0]))
				}
			}
			return false
		case *ast.CallExpr:
			if se, ok := x.Fun.(*ast.SelectorExpr); ok && (se.Sel.Name == "Train" || se.Sel.Name == "SetThreshold") {
				args := []string{}
				for _, a := range x.Args {
					t := src(a)
					if words != "" {
						t = replaceIdent(t, words, "‹words›")
					}
					args = append(args, t)
				}
				out = append(out, "call:"+se.Sel.Name+"("+strings.Join(args, ",")+")")
			}
		}
		return true
	})
	return out
}

// replaceIdent replaces whole-word occurrences of name in s.
func replaceIdent(s, name, by string) string {
	var b strings.Builder
	isW := func(c byte) bool { return c == '_' || c >= '0' && c <= '9' || c >= 'a' && c <= 'z' || c >= 'A' && c <= 'Z' }
	for i := 0; i < len(s); {
		if strings.HasPrefix(s[i:], name) && (i == 0 || !isW(s[i-1])) && (i+len(name) == len(s) || !isW(s[i+len(name)])) {
			b.WriteString(by)
			i += len(name)
		} else {
			b.WriteByte(s[i])
			i++
		}
	}
	return b.String()
}
