package main

import (
	"go/ast"
	"strings"
)

// genRemote: control skeletons of the functions the Remote model (C20) was written
// from.  A skeleton is the sequence of statements of a function body as normalised
// source text, nesting shown by a "| " prefix per level, `r.debugf(…)` calls left out,
// long statements wrapped (continuation lines start with `\ `):
// guard conditions, assignments, returns, the order of the three cache writes.  No
// line numbers, so moving or reformatting code does not disturb it; changing a
// condition, an order or a returned error does.
func genRemote() {
	l := newLean("Remote", "Control skeletons of readRemoteNodeContent and of the functions around it (C20).")
	tf := loadDir("taskfile")
	root := loadDir(".")
	lg := loadDir("internal/logger")
	fl := loadDir("internal/flags")
	cmd := loadDir("cmd/task")

	emit := func(def string, p *pkgFiles, fn string, keep func(string) bool) {
		fd := p.funcDecl(fn)
		if fd == nil || fd.Body == nil {
			fatal("genRemote: function %s not found", fn)
		}
		lines := skeleton(fd.Body.List, 0)
		if keep != nil {
			var kept []string
			for _, ln := range lines {
				if keep(ln) {
					kept = append(kept, ln)
				}
			}
			lines = kept
		}
		l.strList(def, wrapLines(lines, 96))
	}
	emit("skeleton", tf, "Reader.readRemoteNodeContent", nil)
	emit("readNodeContent", tf, "Reader.readNodeContent", nil)
	emit("checksumPrompt", tf, "CacheNode.ChecksumPrompt", nil)
	emit("readChecksum", tf, "CacheNode.ReadChecksum", nil)
	emit("readTimestamp", tf, "CacheNode.ReadTimestamp", nil)
	emit("newHTTPNode", tf, "NewHTTPNode", nil)
	emit("httpReadContext", tf, "HTTPNode.ReadContext", nil)
	emit("newNode", tf, "NewNode", nil)
	emit("readTaskfile", root, "Executor.readTaskfile", nil)
	emit("prompt", lg, "Logger.Prompt", nil)
	// only the guards of Validate that concern the remote flags
	emit("validateRemote", fl, "Validate", func(s string) bool {
		return strings.HasPrefix(s, "if ") && (contains(s, "Download") || contains(s, "Offline") || contains(s, "ClearCache"))
	})
	// cmd/task run(): where --clear-cache sits relative to Setup
	emit("runClearCache", cmd, "run", func(s string) bool {
		return contains(s, "e.Setup()") || contains(s, "ClearCache") || contains(s, "cachePath")
	})
	// C20 chains: the cache is consulted (and cached bytes are returned where no network is
	// needed) before the context is looked at for the first time
	emit("cacheBeforeCtx", tf, "Reader.readRemoteNodeContent", func(s string) bool {
		return mentionsIdent(s, "ctx") || contains(s, "NewCacheNode") || contains(s, "cache.Read()") || contains(s, "return cachedBytes")
	})
	// … and one context — the one made in readTaskfile — is handed down unchanged to every node read
	var flow []string
	for _, fn := range []string{"Reader.Read", "Reader.include", "Reader.readNode", "Reader.readNodeContent",
		"Reader.readRemoteNodeContent", "HTTPNode.ReadContext", "RemoteExists"} {
		fd := tf.funcDecl(fn)
		if fd == nil || fd.Body == nil {
			fatal("genRemote: function %s not found", fn)
		}
		for _, u := range identUses(fd.Body, "ctx") {
			flow = append(flow, fn+": "+u)
		}
	}
	l.strList("ctxFlow", wrapLines(flow, 96))
	var makers []string
	addMakers := func(p *pkgFiles, dir string, only string) {
		for _, fname := range p.sortedFiles() {
			if only != "" && fname != only {
				continue
			}
			for _, d := range p.files[fname].Decls {
				fd, ok := d.(*ast.FuncDecl)
				if !ok || fd.Body == nil {
					continue
				}
				ast.Inspect(fd.Body, func(n ast.Node) bool {
					if ce, ok := n.(*ast.CallExpr); ok {
						if se, ok := ce.Fun.(*ast.SelectorExpr); ok {
							if x, ok := se.X.(*ast.Ident); ok && x.Name == "context" {
								makers = append(makers, dir+fname+" "+funcName(fd)+": "+src(ce))
							}
						}
					}
					return true
				})
			}
		}
	}
	addMakers(root, "", "setup.go")
	addMakers(tf, "taskfile/", "")
	l.strList("ctxMakers", wrapLines(makers, 96))
	l.write()
}

// mentionsIdent: `name` occurs in s as a whole identifier
func mentionsIdent(s, name string) bool {
	isId := func(b byte) bool {
		return b == '_' || (b >= '0' && b <= '9') || (b >= 'a' && b <= 'z') || (b >= 'A' && b <= 'Z')
	}
	for i := 0; i+len(name) <= len(s); i++ {
		if s[i:i+len(name)] == name && (i == 0 || !isId(s[i-1])) && (i+len(name) == len(s) || !isId(s[i+len(name)])) {
			return true
		}
	}
	return false
}

// identUses: every use of the identifier `name` in a function body, in source order, shown as
// the innermost call it is an argument or the receiver of (`f(name, …)`, `name.M()`), or as
// `ASSIGN <stmt>` where it is assigned or redeclared
func identUses(body *ast.BlockStmt, name string) []string {
	var out []string
	var stack []ast.Node
	ast.Inspect(body, func(n ast.Node) bool {
		if n == nil {
			stack = stack[:len(stack)-1]
			return true
		}
		if id, ok := n.(*ast.Ident); ok && id.Name == name {
			shown := ""
			for i := len(stack) - 1; i >= 0 && shown == ""; i-- {
				switch p := stack[i].(type) {
				case *ast.AssignStmt:
					for _, lhs := range p.Lhs {
						if l, ok := lhs.(*ast.Ident); ok && l == id {
							shown = "ASSIGN " + src(p)
						}
					}
					if shown == "" {
						shown = "STMT " + src(p)
					}
				case *ast.CallExpr:
					shown = src(p)
				case ast.Stmt:
					shown = "STMT " + src(p)
				}
			}
			if shown == "" {
				shown = "?"
			}
			out = append(out, shown)
		}
		stack = append(stack, n)
		return true
	})
	return out
}

// wrapLines breaks long statements into pieces of at most n bytes (continuations start
// with `\ `) so that the Lean side can compare them cheaply by `decide`.
func wrapLines(lines []string, n int) []string {
	var out []string
	for _, ln := range lines {
		for len(ln) > n {
			cut := n
			for cut > n/2 && ln[cut] != ' ' {
				cut--
			}
			for cut > 0 && ln[cut]&0xC0 == 0x80 { // not inside a UTF-8 sequence
				cut--
			}
			out = append(out, ln[:cut])
			ln = "\\ " + strings.TrimLeft(ln[cut:], " ")
		}
		out = append(out, ln)
	}
	return out
}

func skeleton(stmts []ast.Stmt, depth int) []string {
	pre := strings.Repeat("| ", depth)
	var out []string
	add := func(s string) { out = append(out, pre+s) }
	for _, st := range stmts {
		switch s := st.(type) {
		case *ast.ExprStmt:
			if ce, ok := s.X.(*ast.CallExpr); ok && src(ce.Fun) == "r.debugf" {
				continue
			}
			add(src(s))
		case *ast.IfStmt:
			out = append(out, skelIf(s, depth, "if ")...)
		case *ast.SwitchStmt:
			h := "switch"
			if s.Init != nil {
				h += " " + src(s.Init) + ";"
			}
			if s.Tag != nil {
				h += " " + src(s.Tag)
			}
			add(h)
			for _, c := range s.Body.List {
				cc := c.(*ast.CaseClause)
				if cc.List == nil {
					add("default:")
				} else {
					es := make([]string, len(cc.List))
					for i, e := range cc.List {
						es[i] = src(e)
					}
					add("case " + strings.Join(es, ", ") + ":")
				}
				out = append(out, skeleton(cc.Body, depth+1)...)
			}
		case *ast.BlockStmt:
			out = append(out, skeleton(s.List, depth+1)...)
		case *ast.ForStmt:
			h := "for"
			if s.Cond != nil {
				h += " " + src(s.Cond)
			}
			add(h)
			out = append(out, skeleton(s.Body.List, depth+1)...)
		case *ast.RangeStmt:
			add("for range " + src(s.X))
			out = append(out, skeleton(s.Body.List, depth+1)...)
		default:
			add(src(st))
		}
	}
	return out
}

func skelIf(s *ast.IfStmt, depth int, kw string) []string {
	pre := strings.Repeat("| ", depth)
	h := kw
	if s.Init != nil {
		h += src(s.Init) + "; "
	}
	h += src(s.Cond)
	out := []string{pre + h}
	out = append(out, skeleton(s.Body.List, depth+1)...)
	switch e := s.Else.(type) {
	case *ast.IfStmt:
		out = append(out, skelIf(e, depth, "else if ")...)
	case *ast.BlockStmt:
		out = append(out, pre+"else")
		out = append(out, skeleton(e.List, depth+1)...)
	}
	return out
}
