package main

import (
	"fmt"
	"go/ast"
	"go/token"
	"regexp"
	"strings"
)

// genRemote: control skeletons of the functions the Remote model (C20) was written
// from.  A skeleton is the sequence of statements of a function body as normalised
// source text, nesting shown by a "| " prefix per level, `r.debugf(…)` calls left out,
// long statements wrapped (continuation lines start with `\ `):
// guard conditions, assignments, returns, the order of the three cache writes.  No
// line numbers, so moving or reformatting code does not disturb it; changing a
// condition, an order or a returned error does.
//
// Names of LOCAL variables do not occur in the facts: every identifier that the parser
// resolves to an object declared inside the function's body (`:=`, `var`, `range`,
// parameters of function literals, local consts/types) is printed as a placeholder ‹k›,
// k = order of first appearance in the emitted fact.  Resolution is by scope (go/parser's
// object resolution), not by name: a local `url` that shadows the package `url` is a
// placeholder where it means the variable and stays `url` where it means the package, and
// two variables of the same name (`err` of an `if err := …` and the outer `err`) are two
// placeholders.  Receivers, parameters (`ctx`, `node`, …), fields, methods, package-level
// names and callees are kept.  Filters select statements structurally (by callee, by the
// object a call's result was assigned to), never by the name of a local.
func genRemote() {
	l := newLean("Remote", "Control skeletons of readRemoteNodeContent and of the functions around it (C20); local variables are placeholders ‹k›.")
	tf := loadDir("taskfile")
	root := loadDir(".")
	lg := loadDir("internal/logger")
	fl := loadDir("internal/flags")
	cmd := loadDir("cmd/task")

	// keep(lines, nz) → indices kept; nil = all
	emit := func(def string, p *pkgFiles, fn string, keep func(lines []string, nz *normalizer) []bool) {
		fd := p.funcDecl(fn)
		if fd == nil || fd.Body == nil {
			// not an error of the extractor: the fact then differs from what the model was written from,
			// and the obligation that quotes it does not build — the check reports that
			l.strList(def, []string{"<no function " + fn + " in the tree under test>"})
			return
		}
		nz := newNormalizer(fd)
		lines := nz.skeleton(fd.Body.List, 0)
		if keep != nil {
			mask := keep(lines, nz)
			var kept []string
			for i, ln := range lines {
				if mask[i] {
					kept = append(kept, ln)
				}
			}
			lines = kept
		}
		l.strList(def, wrapLines(renumber(lines), 96))
	}
	lineFilter := func(f func(s string) bool) func([]string, *normalizer) []bool {
		return func(lines []string, _ *normalizer) []bool {
			m := make([]bool, len(lines))
			for i, s := range lines {
				m[i] = f(s)
			}
			return m
		}
	}
	emit("skeleton", tf, "Reader.readRemoteNodeContent", nil)
	emit("readNodeContent", tf, "Reader.readNodeContent", nil)
	emit("checksumPrompt", tf, "CacheNode.ChecksumPrompt", nil)
	emit("readChecksum", tf, "CacheNode.ReadChecksum", nil)
	emit("readTimestamp", tf, "CacheNode.ReadTimestamp", nil)
	emit("newHTTPNode", tf, "NewHTTPNode", nil)
	emit("httpReadContext", tf, "HTTPNode.ReadContext", nil)
	emit("newNode", tf, "NewNode", nil)
	// the cache key of an http node: the checksum of the WHOLE location string (the entrypoint as given:
	// scheme, host, path, query) plus a readable prefix; how the key becomes the three file names
	emit("cacheKey", tf, "HTTPNode.CacheKey", nil)
	emit("httpLocation", tf, "HTTPNode.Location", nil)
	emit("cacheFilePath", tf, "CacheNode.filePath", nil)
	emit("checksumFn", tf, "checksum", nil)
	emit("httpResolveEntrypoint", tf, "HTTPNode.ResolveEntrypoint", nil)
	// the default-name probe (which failure carries which error; where ctx.Err() is looked at; what is tested of a
	// response), the client every request of an http node is made with (its redirect policy), the location that is
	// stored with a cached copy, and the git node (scheme check, the clone under the context)
	emit("remoteExists", tf, "RemoteExists", nil)
	emit("httpClient", tf, "HTTPNode.client", nil)
	emit("httpResolvedLocation", tf, "HTTPNode.resolvedLocation", nil)
	emit("httpSetResolvedLocation", tf, "HTTPNode.setResolvedLocation", nil)
	emit("readResolvedLocation", tf, "CacheNode.ReadResolvedLocation", nil)
	emit("writeResolvedLocation", tf, "CacheNode.WriteResolvedLocation", nil)
	emit("newGitNode", tf, "NewGitNode", nil)
	emit("gitReadContext", tf, "GitNode.ReadContext", nil)
	// every place in package taskfile where an HTTP request is sent (a call of a method Do/Get/Head/Post/PostForm), shown
	// as the call with locals as placeholders, and every mention of the package-level default client / transport of
	// net/http (an identifier `http` that resolves to no object of the file, i.e. the package) or of its convenience
	// functions — which would bypass the node's redirect policy
	var doers, defaults []string
	for _, fname := range tf.sortedFiles() {
		for _, d := range tf.files[fname].Decls {
			fd, ok := d.(*ast.FuncDecl)
			if !ok || fd.Body == nil {
				continue
			}
			nz := newNormalizer(fd)
			var calls, defs []string
			ast.Inspect(fd.Body, func(n ast.Node) bool {
				switch x := n.(type) {
				case *ast.CallExpr:
					if se, ok := x.Fun.(*ast.SelectorExpr); ok {
						switch se.Sel.Name {
						case "Do", "Get", "Head", "Post", "PostForm":
							if id, ok := se.X.(*ast.Ident); ok && id.Name == "http" && id.Obj == nil {
								defs = append(defs, nz.src(x.Fun))
							} else if se.Sel.Name == "Do" {
								calls = append(calls, nz.src(x))
							}
						}
					}
				case *ast.SelectorExpr:
					if id, ok := x.X.(*ast.Ident); ok && id.Name == "http" && id.Obj == nil &&
						(x.Sel.Name == "DefaultClient" || x.Sel.Name == "DefaultTransport") {
						defs = append(defs, nz.src(x))
					}
				}
				return true
			})
			for _, c := range renumber(calls) {
				doers = append(doers, funcName(fd)+": "+c)
			}
			for _, c := range defs {
				defaults = append(defaults, funcName(fd)+": "+c)
			}
		}
	}
	l.strList("httpDoers", wrapLines(doers, 96))
	l.strList("httpDefaultClientUses", wrapLines(defaults, 96))
	// every method ReadContext of package taskfile: the name of its context parameter (`_` = the context is dropped)
	// and every use of it
	var rc []string
	for _, fname := range tf.sortedFiles() {
		for _, d := range tf.files[fname].Decls {
			fd, ok := d.(*ast.FuncDecl)
			if !ok || fd.Body == nil || fd.Recv == nil || fd.Name.Name != "ReadContext" {
				continue
			}
			param := "<none>"
			if ps := fd.Type.Params.List; len(ps) > 0 && len(ps[0].Names) > 0 {
				param = ps[0].Names[0].Name
			}
			if param == "_" || param == "<none>" {
				rc = append(rc, funcName(fd)+"("+param+"): the context is dropped")
				continue
			}
			nz := newNormalizer(fd)
			uses := renumber(nz.identUses(fd.Body, param))
			if len(uses) == 0 {
				rc = append(rc, funcName(fd)+"("+param+"): the context is not used")
			}
			for _, u := range uses {
				// the name of the parameter itself is irrelevant
				rc = append(rc, funcName(fd)+": "+remReplaceIdent(u, param, "ctx"))
			}
		}
	}
	l.strList("readContextUses", wrapLines(rc, 96))
	emit("readTaskfile", root, "Executor.readTaskfile", nil)
	emit("prompt", lg, "Logger.Prompt", nil)
	// only the guards of Validate that concern the remote flags (package-level variables of internal/flags)
	emit("validateRemote", fl, "Validate", lineFilter(func(s string) bool {
		return strings.HasPrefix(s, "if ") && (mentionsIdent(s, "Download") || mentionsIdent(s, "Offline") || mentionsIdent(s, "ClearCache"))
	}))
	// cmd/task run(): where --clear-cache sits relative to Setup: the call of the method Setup, the
	// `if` on flags.ClearCache and everything nested in it
	emit("runClearCache", cmd, "run", func(lines []string, _ *normalizer) []bool {
		m := make([]bool, len(lines))
		inside := -1 // depth of the kept `if … ClearCache` line we are nested in
		for i, s := range lines {
			d := strings.Count(s[:len(s)-len(strings.TrimLeft(s, "| "))], "|")
			if inside >= 0 && d > inside {
				m[i] = true
				continue
			}
			inside = -1
			switch {
			case mentionsIdent(s, "ClearCache"):
				m[i] = true
				if strings.HasPrefix(strings.TrimLeft(s, "| "), "if ") {
					inside = d
				}
			case contains(s, ".Setup()"):
				m[i] = true
			}
		}
		return m
	})
	// C20 chains: the cache is consulted (and cached bytes are returned where no network is
	// needed) before the context is looked at for the first time.  Kept: statements that mention
	// the parameter ctx, the call of NewCacheNode, the call of Read on the object NewCacheNode's
	// result was assigned to, and every return of the object that call's result was assigned to.
	emit("cacheBeforeCtx", tf, "Reader.readRemoteNodeContent", func(lines []string, nz *normalizer) []bool {
		cacheObj := nz.assignedFrom(func(ce *ast.CallExpr) bool {
			id, ok := ce.Fun.(*ast.Ident)
			return ok && id.Name == "NewCacheNode"
		})
		if cacheObj == nil {
			fatal("genRemote: readRemoteNodeContent no longer assigns the result of NewCacheNode to a local")
		}
		readCall := nz.token(cacheObj) + ".Read()"
		bytesObj := nz.assignedFrom(func(ce *ast.CallExpr) bool {
			se, ok := ce.Fun.(*ast.SelectorExpr)
			if !ok || se.Sel.Name != "Read" || len(ce.Args) != 0 {
				return false
			}
			id, ok := se.X.(*ast.Ident)
			return ok && id.Obj == cacheObj
		})
		if bytesObj == nil {
			fatal("genRemote: readRemoteNodeContent no longer assigns the result of <cache>.Read() to a local")
		}
		retBytes := "return " + nz.token(bytesObj)
		// … or of a local function that returns them (`useCache := func() ([]byte, error) { …; return cachedBytes, nil }`)
		retVia := "\x00"
		ast.Inspect(nz.fd.Body, func(n ast.Node) bool {
			as, ok := n.(*ast.AssignStmt)
			if !ok || len(as.Lhs) != 1 || len(as.Rhs) != 1 {
				return true
			}
			fl, ok := as.Rhs[0].(*ast.FuncLit)
			id, ok2 := as.Lhs[0].(*ast.Ident)
			if ok && ok2 && nz.local(id.Obj) && contains(nz.src(fl), retBytes) {
				retVia = "return " + nz.token(id.Obj) + "()"
			}
			return true
		})
		m := make([]bool, len(lines))
		for i, s := range lines {
			m[i] = mentionsIdent(s, "ctx") || contains(s, "NewCacheNode(") || contains(s, readCall) || contains(s, retBytes) || contains(s, retVia)
		}
		return m
	})
	// … and one context — the one made in readTaskfile — is handed down unchanged to every node read
	// (`ctx` is the name of the parameter in each of these functions)
	var flow []string
	for _, fn := range []string{"Reader.Read", "Reader.include", "Reader.readNode", "Reader.readNodeContent",
		"Reader.readRemoteNodeContent", "HTTPNode.ReadContext", "RemoteExists"} {
		fd := tf.funcDecl(fn)
		if fd == nil || fd.Body == nil {
			fatal("genRemote: function %s not found", fn)
		}
		nz := newNormalizer(fd)
		for _, u := range renumber(nz.identUses(fd.Body, "ctx")) {
			flow = append(flow, fn+": "+u)
		}
	}
	l.strList("ctxFlow", wrapLines(flow, 96))
	var makers []string
	addMakers := func(p *pkgFiles, dir string, only string) {
		for _, fname := range p.sortedFiles() {
			if only != "" && fname != only {
				continue
			}
			for _, d := range p.files[fname].Decls {
				fd, ok := d.(*ast.FuncDecl)
				if !ok || fd.Body == nil {
					continue
				}
				nz := newNormalizer(fd)
				var calls []string
				ast.Inspect(fd.Body, func(n ast.Node) bool {
					if ce, ok := n.(*ast.CallExpr); ok {
						if se, ok := ce.Fun.(*ast.SelectorExpr); ok {
							// the package `context`: an identifier that resolves to no object of the file
							if x, ok := se.X.(*ast.Ident); ok && x.Name == "context" && x.Obj == nil {
								calls = append(calls, nz.src(ce))
							}
						}
					}
					return true
				})
				for _, c := range renumber(calls) {
					makers = append(makers, dir+fname+" "+funcName(fd)+": "+c)
				}
			}
		}
	}
	addMakers(root, "", "setup.go")
	addMakers(tf, "taskfile/", "")
	l.strList("ctxMakers", wrapLines(makers, 96))
	l.write()
}

// normalizer prints nodes of one function with its local objects replaced by position
// tokens ‹@pos›; renumber turns the tokens of a finished fact into ‹0›, ‹1›, … in order of
// first appearance.
type normalizer struct {
	fd  *ast.FuncDecl
	pos map[*ast.Object]token.Pos // declaration position of every local object (taken while all names are intact)
}

func newNormalizer(fd *ast.FuncDecl) *normalizer {
	nz := &normalizer{fd: fd, pos: map[*ast.Object]token.Pos{}}
	if fd.Body == nil {
		return nz
	}
	ast.Inspect(fd.Body, func(n ast.Node) bool {
		id, ok := n.(*ast.Ident)
		if !ok || id.Obj == nil || id.Name == "_" { // the blank identifier stays `_`
			return true
		}
		if _, seen := nz.pos[id.Obj]; seen {
			return true
		}
		switch id.Obj.Kind {
		case ast.Var, ast.Con, ast.Typ:
		default:
			return true
		}
		// declared inside the body: not a receiver, parameter or result of the function itself, not package-level
		if p := id.Obj.Pos(); p >= fd.Body.Pos() && p < fd.Body.End() {
			nz.pos[id.Obj] = p
		}
		return true
	})
	return nz
}

func (nz *normalizer) local(obj *ast.Object) bool {
	_, ok := nz.pos[obj]
	return obj != nil && ok
}

func (nz *normalizer) token(obj *ast.Object) string {
	return fmt.Sprintf("‹@%d›", int(nz.pos[obj]))
}

func (nz *normalizer) src(n ast.Node) string {
	type saved struct {
		id   *ast.Ident
		name string
	}
	var sv []saved
	ast.Inspect(n, func(m ast.Node) bool {
		if id, ok := m.(*ast.Ident); ok && nz.local(id.Obj) {
			sv = append(sv, saved{id, id.Name})
			id.Name = nz.token(id.Obj)
		}
		return true
	})
	out := src(n)
	for _, s := range sv {
		s.id.Name = s.name
	}
	return out
}

// assignedFrom: the local object that the (first) result of the first call satisfying match is
// assigned to (`x, err := call(…)`, `x = call(…)`, `var x = call(…)`)
func (nz *normalizer) assignedFrom(match func(*ast.CallExpr) bool) *ast.Object {
	var found *ast.Object
	ast.Inspect(nz.fd.Body, func(n ast.Node) bool {
		if found != nil {
			return false
		}
		var lhs []ast.Expr
		var rhs []ast.Expr
		switch x := n.(type) {
		case *ast.AssignStmt:
			lhs, rhs = x.Lhs, x.Rhs
		case *ast.ValueSpec:
			for _, id := range x.Names {
				lhs = append(lhs, id)
			}
			rhs = x.Values
		default:
			return true
		}
		if len(rhs) != 1 || len(lhs) == 0 {
			return true
		}
		if ce, ok := rhs[0].(*ast.CallExpr); ok && match(ce) {
			if id, ok := lhs[0].(*ast.Ident); ok && nz.local(id.Obj) {
				found = id.Obj
			}
		}
		return true
	})
	return found
}

var tokenRe = regexp.MustCompile(`‹@(\d+)›`)

// renumber: position tokens → ‹k›, k = order of first appearance in lines
func renumber(lines []string) []string {
	idx := map[string]int{}
	out := make([]string, len(lines))
	for i, ln := range lines {
		out[i] = tokenRe.ReplaceAllStringFunc(ln, func(t string) string {
			k, ok := idx[t]
			if !ok {
				k = len(idx)
				idx[t] = k
			}
			return fmt.Sprintf("‹%d›", k)
		})
	}
	return out
}

// remReplaceIdent: every occurrence of `name` as a whole identifier in s becomes `with`
func remReplaceIdent(s, name, with string) string {
	if name == with {
		return s
	}
	isId := func(b byte) bool {
		return b == '_' || (b >= '0' && b <= '9') || (b >= 'a' && b <= 'z') || (b >= 'A' && b <= 'Z')
	}
	var sb strings.Builder
	for i := 0; i < len(s); {
		if i+len(name) <= len(s) && s[i:i+len(name)] == name && (i == 0 || !isId(s[i-1])) && (i+len(name) == len(s) || !isId(s[i+len(name)])) {
			sb.WriteString(with)
			i += len(name)
			continue
		}
		sb.WriteByte(s[i])
		i++
	}
	return sb.String()
}

// mentionsIdent: `name` occurs in s as a whole identifier
func mentionsIdent(s, name string) bool {
	isId := func(b byte) bool {
		return b == '_' || (b >= '0' && b <= '9') || (b >= 'a' && b <= 'z') || (b >= 'A' && b <= 'Z')
	}
	for i := 0; i+len(name) <= len(s); i++ {
		if s[i:i+len(name)] == name && (i == 0 || !isId(s[i-1])) && (i+len(name) == len(s) || !isId(s[i+len(name)])) {
			return true
		}
	}
	return false
}

// identUses: every use of the identifier `name` (a parameter) in a function body, in source order,
// shown as the innermost call it is an argument or the receiver of (`f(name, …)`, `name.M()`), or as
// `ASSIGN <stmt>` where it is assigned or redeclared
func (nz *normalizer) identUses(body *ast.BlockStmt, name string) []string {
	var out []string
	var stack []ast.Node
	ast.Inspect(body, func(n ast.Node) bool {
		if n == nil {
			stack = stack[:len(stack)-1]
			return true
		}
		if id, ok := n.(*ast.Ident); ok && id.Name == name {
			shown := ""
			for i := len(stack) - 1; i >= 0 && shown == ""; i-- {
				switch p := stack[i].(type) {
				case *ast.AssignStmt:
					for _, lhs := range p.Lhs {
						if l, ok := lhs.(*ast.Ident); ok && l == id {
							shown = "ASSIGN " + nz.src(p)
						}
					}
					if shown == "" {
						shown = "STMT " + nz.src(p)
					}
				case *ast.CallExpr:
					shown = nz.src(p)
				case ast.Stmt:
					shown = "STMT " + nz.src(p)
				}
			}
			if shown == "" {
				shown = "?"
			}
			out = append(out, shown)
		}
		stack = append(stack, n)
		return true
	})
	return out
}

// wrapLines breaks long statements into pieces of at most n bytes (continuations start
// with `\ `) so that the Lean side can compare them cheaply by `decide`.
func wrapLines(lines []string, n int) []string {
	var out []string
	for _, ln := range lines {
		for len(ln) > n {
			cut := n
			for cut > n/2 && ln[cut] != ' ' {
				cut--
			}
			for cut > 0 && ln[cut]&0xC0 == 0x80 { // not inside a UTF-8 sequence
				cut--
			}
			out = append(out, ln[:cut])
			ln = "\\ " + strings.TrimLeft(ln[cut:], " ")
		}
		out = append(out, ln)
	}
	return out
}

func (nz *normalizer) skeleton(stmts []ast.Stmt, depth int) []string {
	pre := strings.Repeat("| ", depth)
	var out []string
	add := func(s string) { out = append(out, pre+s) }
	for _, st := range stmts {
		switch s := st.(type) {
		case *ast.ExprStmt:
			if ce, ok := s.X.(*ast.CallExpr); ok && nz.src(ce.Fun) == "r.debugf" {
				continue
			}
			add(nz.src(s))
		case *ast.IfStmt:
			out = append(out, nz.skelIf(s, depth, "if ")...)
		case *ast.SwitchStmt:
			h := "switch"
			if s.Init != nil {
				h += " " + nz.src(s.Init) + ";"
			}
			if s.Tag != nil {
				h += " " + nz.src(s.Tag)
			}
			add(h)
			for _, c := range s.Body.List {
				cc := c.(*ast.CaseClause)
				if cc.List == nil {
					add("default:")
				} else {
					es := make([]string, len(cc.List))
					for i, e := range cc.List {
						es[i] = nz.src(e)
					}
					add("case " + strings.Join(es, ", ") + ":")
				}
				out = append(out, nz.skeleton(cc.Body, depth+1)...)
			}
		case *ast.BlockStmt:
			out = append(out, nz.skeleton(s.List, depth+1)...)
		case *ast.ForStmt:
			h := "for"
			if s.Cond != nil {
				h += " " + nz.src(s.Cond)
			}
			add(h)
			out = append(out, nz.skeleton(s.Body.List, depth+1)...)
		case *ast.RangeStmt:
			add("for range " + nz.src(s.X))
			out = append(out, nz.skeleton(s.Body.List, depth+1)...)
		default:
			add(nz.src(st))
		}
	}
	return out
}

func (nz *normalizer) skelIf(s *ast.IfStmt, depth int, kw string) []string {
	pre := strings.Repeat("| ", depth)
	h := kw
	if s.Init != nil {
		h += nz.src(s.Init) + "; "
	}
	h += nz.src(s.Cond)
	out := []string{pre + h}
	out = append(out, nz.skeleton(s.Body.List, depth+1)...)
	switch e := s.Else.(type) {
	case *ast.IfStmt:
		out = append(out, nz.skelIf(e, depth, "else if ")...)
	case *ast.BlockStmt:
		out = append(out, pre+"else")
		out = append(out, nz.skeleton(e.List, depth+1)...)
	}
	return out
}
