package main

import (
	"fmt"
	"go/ast"
	"go/token"
	"sort"
	"strings"
)

// fnorm: everything the Finger / DryWiring tables need to know about the LOCAL variables of one
// function so that no fact depends on how a local is spelled.
//
// A local is an object the parser resolves to a declaration inside the function body (`:=`,
// `var`, `range`, parameters of function literals) — by scope, not by name (normalizer in
// remote.go): two variables of one name are two objects, a shadowed package name stays a
// package name.  Receivers, parameters, fields, methods, callees and package-level names
// are printed as they are.
//
// Printing (`text`):
//   - a local that is defined exactly once by a PURE expression (no call, no literal with a
//     body; every local it mentions is itself declared once and never reassigned) is replaced by
//     that expression: `cmd := t.Cmds[i]` makes `cmd.Task` print as `t.Cmds[‹0›].Task`,
//     `skipFingerprinting := …` makes `!skipFingerprinting` print as `!(…)`;
//   - every other local is a placeholder ‹k›, k = order of first appearance in the finished table
//     of its function (`renumber`).
//
// Callees (`callee`): when the root of the selector is a local that is defined exactly once from a
// call, a function literal or a composite literal, the root is printed as that ORIGIN:
// `checker.OnError` with `checker, err := fingerprint.NewSourcesChecker(…)` is
// `(fingerprint.NewSourcesChecker).OnError`, `touchMarker()` with `touchMarker := func() …` is
// `(func·0)`, `config.statusChecker.IsUpToDate` with `config := &CheckerConfig{…}` is
// `(&CheckerConfig{}).statusChecker.IsUpToDate`, `h.Sum128` with `h := xxh3.New()` is
// `(xxh3.New).Sum128`.  The `interesting` sets of the tables are written in this form.
//
// Selection:
//   - error variables (`isErr`) — (a) the last left-hand side of `x, …, y := call(…)`; (b) a local
//     that is the last result of a `return` of a function (literal) whose last result type is
//     `error`; (c) `var x error`; (d) a local that is compared with nil and only ever assigned from
//     single-valued calls.  A condition is error plumbing iff it mentions an error variable.
//   - verdict variables (`tracked`) — the locals that occur in a kept return or in a visible guard
//     condition, closed under "occurs in the defining expression of a tracked variable, outside
//     call arguments"; error variables and inlined locals excepted.  Their definitions and
//     assignments are the `def …` rows.
type fnorm struct {
	nz       *normalizer
	fd       *ast.FuncDecl
	sites    map[*ast.Object][]defSite // every declaration / assignment of a local
	mutated  map[*ast.Object]bool      // ++/--, op=, address taken
	errs     map[*ast.Object]bool
	inl      map[*ast.Object]ast.Expr // inlined pure definitions
	lits     map[*ast.FuncLit]int     // ordinal of every function literal of the body
	tracked  map[*ast.Object]bool
	orgIndex map[*ast.Object]int // ordinal among the locals with the same origin text
}

type defSite struct {
	rhs   ast.Expr // the expression assigned (nil for range variables, parameters, `var x T`)
	index int      // position among the left-hand sides
	n     int      // number of left-hand sides
	decl  bool     // := / var / range / parameter
	typ   ast.Expr // declared type, if any
}

func newFnorm(fd *ast.FuncDecl) *fnorm {
	fn := &fnorm{fd: fd, sites: map[*ast.Object][]defSite{}, mutated: map[*ast.Object]bool{},
		errs: map[*ast.Object]bool{}, inl: map[*ast.Object]ast.Expr{}, lits: map[*ast.FuncLit]int{}, tracked: map[*ast.Object]bool{}}
	if fd == nil || fd.Body == nil {
		fn.nz = &normalizer{fd: fd, pos: map[*ast.Object]token.Pos{}}
		return fn
	}
	fn.nz = newNormalizer(fd)
	fn.collect()
	fn.findErrs()
	fn.notErrs()
	fn.findInline()
	return fn
}

func (fn *fnorm) obj(e ast.Expr) *ast.Object {
	if id, ok := e.(*ast.Ident); ok && fn.nz.local(id.Obj) {
		return id.Obj
	}
	return nil
}

func (fn *fnorm) collect() {
	add := func(lhs []ast.Expr, rhs []ast.Expr, decl bool, typ ast.Expr) {
		for i, l := range lhs {
			o := fn.obj(l)
			if o == nil {
				continue
			}
			s := defSite{index: i, n: len(lhs), decl: decl, typ: typ}
			switch {
			case len(rhs) == len(lhs):
				s.rhs = rhs[i]
			case len(rhs) == 1:
				s.rhs = rhs[0]
			}
			fn.sites[o] = append(fn.sites[o], s)
		}
	}
	ast.Inspect(fn.fd.Body, func(n ast.Node) bool {
		switch x := n.(type) {
		case *ast.AssignStmt:
			if x.Tok == token.DEFINE || x.Tok == token.ASSIGN {
				add(x.Lhs, x.Rhs, x.Tok == token.DEFINE, nil)
			} else {
				for _, l := range x.Lhs {
					if o := fn.obj(l); o != nil {
						fn.mutated[o] = true
					}
				}
			}
		case *ast.ValueSpec:
			var lhs []ast.Expr
			for _, id := range x.Names {
				lhs = append(lhs, id)
			}
			add(lhs, x.Values, true, x.Type)
		case *ast.RangeStmt:
			var lhs []ast.Expr
			if x.Key != nil {
				lhs = append(lhs, x.Key)
			}
			if x.Value != nil {
				lhs = append(lhs, x.Value)
			}
			for i, l := range lhs {
				if o := fn.obj(l); o != nil {
					fn.sites[o] = append(fn.sites[o], defSite{index: i, n: len(lhs), decl: x.Tok == token.DEFINE})
				}
			}
		case *ast.FuncLit:
			fn.lits[x] = len(fn.lits)
			if x.Type.Params != nil {
				for _, f := range x.Type.Params.List {
					for _, id := range f.Names {
						if o := fn.obj(id); o != nil {
							fn.sites[o] = append(fn.sites[o], defSite{n: 1, decl: true, typ: f.Type})
						}
					}
				}
			}
		case *ast.IncDecStmt:
			if o := fn.obj(x.X); o != nil {
				fn.mutated[o] = true
			}
		case *ast.UnaryExpr:
			if x.Op == token.AND {
				if o := fn.obj(x.X); o != nil {
					fn.mutated[o] = true
				}
			}
		}
		return true
	})
}

// once: declared once and never reassigned or mutated
func (fn *fnorm) once(o *ast.Object) bool {
	return len(fn.sites[o]) == 1 && !fn.mutated[o]
}

func lastResultIsError(ft *ast.FuncType) bool {
	if ft == nil || ft.Results == nil || len(ft.Results.List) == 0 {
		return false
	}
	return src(ft.Results.List[len(ft.Results.List)-1].Type) == "error"
}

func (fn *fnorm) findErrs() {
	// (a) last left-hand side of a multi-valued call, (c) `var x error`
	for o, ss := range fn.sites {
		for _, s := range ss {
			if _, isCall := s.rhs.(*ast.CallExpr); isCall && s.n > 1 && s.index == s.n-1 {
				fn.errs[o] = true
			}
			if s.typ != nil && src(s.typ) == "error" {
				fn.errs[o] = true
			}
		}
	}
	// (b) last result of a return of a function whose last result type is error
	var walk func(body *ast.BlockStmt, ft *ast.FuncType)
	walk = func(body *ast.BlockStmt, ft *ast.FuncType) {
		ast.Inspect(body, func(n ast.Node) bool {
			switch x := n.(type) {
			case *ast.FuncLit:
				walk(x.Body, x.Type)
				return false
			case *ast.ReturnStmt:
				if k := len(x.Results); k > 0 && lastResultIsError(ft) {
					if o := fn.obj(x.Results[k-1]); o != nil {
						fn.errs[o] = true
					}
				}
			}
			return true
		})
	}
	walk(fn.fd.Body, fn.fd.Type)
	// (d) compared with nil, and only ever assigned from single-valued calls
	ast.Inspect(fn.fd.Body, func(n ast.Node) bool {
		be, ok := n.(*ast.BinaryExpr)
		if !ok || (be.Op != token.EQL && be.Op != token.NEQ) {
			return true
		}
		for _, p := range [][2]ast.Expr{{be.X, be.Y}, {be.Y, be.X}} {
			if id, ok := p[1].(*ast.Ident); !ok || id.Name != "nil" {
				continue
			}
			o := fn.obj(p[0])
			if o == nil || len(fn.sites[o]) == 0 {
				continue
			}
			all := true
			for _, s := range fn.sites[o] {
				if _, isCall := s.rhs.(*ast.CallExpr); !isCall || s.n != 1 {
					all = false
				}
			}
			if all {
				fn.errs[o] = true
			}
		}
		return true
	})
}

// notErrs: (e) a local that is used as a bare BOOLEAN — an operand of `!`, `&&`, `||`, or the whole
// condition of an `if` / `for` — is not an error variable, whatever rule (a) says: `exitCode,
// isExitError := interp.IsExitStatus(err)`, `v, ok := f()`.  A condition on such a local is a guard
// like any other (it is printed, and what sits behind it is guarded by it).
func (fn *fnorm) notErrs() {
	drop := func(e ast.Expr) {
		if o := fn.obj(e); o != nil {
			delete(fn.errs, o)
		}
	}
	var operands func(e ast.Expr)
	operands = func(e ast.Expr) {
		switch x := e.(type) {
		case *ast.ParenExpr:
			operands(x.X)
		case *ast.UnaryExpr:
			if x.Op == token.NOT {
				operands(x.X)
			}
		case *ast.BinaryExpr:
			if x.Op == token.LAND || x.Op == token.LOR {
				operands(x.X)
				operands(x.Y)
			}
		case *ast.Ident:
			drop(x)
		}
	}
	ast.Inspect(fn.fd.Body, func(n ast.Node) bool {
		switch x := n.(type) {
		case *ast.IfStmt:
			operands(x.Cond)
		case *ast.ForStmt:
			if x.Cond != nil {
				operands(x.Cond)
			}
		case *ast.UnaryExpr:
			if x.Op == token.NOT {
				operands(x.X)
			}
		case *ast.BinaryExpr:
			if x.Op == token.LAND || x.Op == token.LOR {
				operands(x)
			}
		}
		return true
	})
}

// pure: no call, no function / composite literal; every local is declared once and never reassigned
func (fn *fnorm) pure(e ast.Expr) bool {
	ok := true
	ast.Inspect(e, func(n ast.Node) bool {
		switch x := n.(type) {
		case *ast.CallExpr, *ast.FuncLit, *ast.CompositeLit:
			ok = false
		case *ast.UnaryExpr:
			if x.Op == token.ARROW || x.Op == token.AND {
				ok = false
			}
		case *ast.Ident:
			if o := fn.obj(x); o != nil && (!fn.once(o) || fn.errs[o]) {
				ok = false
			}
		}
		return ok
	})
	return ok
}

func (fn *fnorm) findInline() {
	for o, ss := range fn.sites {
		if !fn.once(o) || fn.errs[o] {
			continue
		}
		s := ss[0]
		if s.rhs != nil && s.n == 1 && s.decl && fn.pure(s.rhs) {
			fn.inl[o] = s.rhs
		}
	}
}

// mentionsErr: the expression mentions an error variable
func (fn *fnorm) mentionsErr(e ast.Node) bool {
	found := false
	if e == nil {
		return false
	}
	ast.Inspect(e, func(n ast.Node) bool {
		if id, ok := n.(*ast.Ident); ok && id.Obj != nil && fn.errs[id.Obj] {
			found = true
		}
		return !found
	})
	return found
}

// text prints a node in the normal form described above (placeholders are position tokens until
// `renumber` is applied to the finished fact)
func (fn *fnorm) text(n ast.Node) string {
	return fn.textWith(n, nil)
}

// textWith: like text; `special` may give the text of a local itself (e.g. "<preconditions>").
// The root of a callee that is a local with an origin is printed as that origin, as `callee` does.
func (fn *fnorm) textWith(n ast.Node, special func(*ast.Object) (string, bool)) string {
	type saved struct {
		id   *ast.Ident
		name string
	}
	var sv []saved
	roots := map[*ast.Ident]string{}
	ast.Inspect(n, func(m ast.Node) bool {
		if ce, ok := m.(*ast.CallExpr); ok {
			if id := calleeRoot(ce.Fun); id != nil {
				if o := fn.obj(id); o != nil && fn.inl[o] == nil {
					if org := fn.origin(o); org != "" {
						roots[id] = "(" + org + ")"
					}
				}
			}
		}
		return true
	})
	ast.Inspect(n, func(m ast.Node) bool {
		id, ok := m.(*ast.Ident)
		if !ok || !fn.nz.local(id.Obj) {
			return true
		}
		name := roots[id]
		if name == "" && special != nil {
			if s, ok := special(id.Obj); ok {
				name = s
			}
		}
		if name == "" {
			if rhs, ok := fn.inl[id.Obj]; ok {
				// an inlined boolean definition is printed with the operands of its && / || chains sorted
				t := canonBoolF(rhs, func(e ast.Expr) string { return fn.textWith(e, special) })
				switch rhs.(type) {
				case *ast.Ident, *ast.SelectorExpr, *ast.IndexExpr, *ast.BasicLit, *ast.ParenExpr:
					name = t
				default:
					name = "(" + t + ")"
				}
			} else {
				name = fn.nz.token(id.Obj)
			}
		}
		sv = append(sv, saved{id, id.Name})
		id.Name = name
		return true
	})
	out := src(n)
	for _, s := range sv {
		s.id.Name = s.name
	}
	return out
}

// calleeRoot: the identifier at the root of a call's function expression (`x` of `x.a.b(…)`, `f` of `f(…)`)
func calleeRoot(fun ast.Expr) *ast.Ident {
	for {
		switch x := fun.(type) {
		case *ast.SelectorExpr:
			fun = x.X
		case *ast.ParenExpr:
			fun = x.X
		case *ast.Ident:
			return x
		default:
			return nil
		}
	}
}

// origin: what a local that is defined exactly once was defined from — a call (its callee), a
// function literal, a composite literal; "" if there is no such single origin
func (fn *fnorm) origin(o *ast.Object) string {
	base := fn.originBase(o)
	if base == "" {
		return ""
	}
	// two locals with the same origin text (`a := f(); b := f()`) are told apart by the order of
	// their declarations: the second is `f·1`
	if fn.orgIndex == nil {
		fn.orgIndex = map[*ast.Object]int{}
		var objs []*ast.Object
		for p := range fn.sites {
			objs = append(objs, p)
		}
		sort.Slice(objs, func(i, j int) bool { return fn.nz.pos[objs[i]] < fn.nz.pos[objs[j]] })
		seen := map[string]int{}
		for _, p := range objs {
			if b := fn.originBase(p); b != "" {
				fn.orgIndex[p] = seen[b]
				seen[b]++
			}
		}
	}
	if k := fn.orgIndex[o]; k > 0 {
		return fmt.Sprintf("%s·%d", base, k)
	}
	return base
}

func (fn *fnorm) originBase(o *ast.Object) string {
	if !fn.once(o) {
		return ""
	}
	s := fn.sites[o][0]
	suffix := ""
	if s.n > 1 && s.index > 0 {
		suffix = fmt.Sprintf("#%d", s.index)
	}
	switch x := s.rhs.(type) {
	case *ast.CallExpr:
		return fn.callee(x.Fun) + suffix
	case *ast.FuncLit:
		return fmt.Sprintf("func·%d", fn.lits[x])
	case *ast.CompositeLit:
		return src(x.Type) + "{}"
	case *ast.UnaryExpr:
		if cl, ok := x.X.(*ast.CompositeLit); ok && x.Op == token.AND {
			return "&" + src(cl.Type) + "{}"
		}
	}
	return ""
}

// callee: the text of a call's function with a local root replaced by its origin
func (fn *fnorm) callee(fun ast.Expr) string {
	if id := calleeRoot(fun); id != nil {
		if o := fn.obj(id); o != nil && fn.inl[o] == nil {
			if org := fn.origin(o); org != "" {
				old, obj := id.Name, id.Obj
				id.Name, id.Obj = "("+org+")", nil // printed verbatim; not a local any more while printing
				out := fn.text(fun)
				id.Name, id.Obj = old, obj
				return out
			}
		}
	}
	return fn.text(fun)
}

// localsIn: the local objects mentioned in e; with skipArgs, not those inside call arguments
func (fn *fnorm) localsIn(e ast.Node, skipArgs bool) []*ast.Object {
	var out []*ast.Object
	var walk func(n ast.Node)
	walk = func(n ast.Node) {
		if n == nil {
			return
		}
		ast.Inspect(n, func(m ast.Node) bool {
			switch x := m.(type) {
			case *ast.CallExpr:
				if skipArgs {
					walk(x.Fun)
					return false
				}
			case *ast.FuncLit:
				return false
			case *ast.Ident:
				if o := fn.obj(x); o != nil {
					out = append(out, o)
				}
			}
			return true
		})
	}
	walk(e)
	return out
}

// track: seeds (locals of kept returns and visible guards) closed under "occurs in the definition of"
func (fn *fnorm) track(seeds []*ast.Object) {
	var work []*ast.Object
	push := func(o *ast.Object) {
		if o == nil || fn.tracked[o] || fn.errs[o] {
			return
		}
		if rhs, ok := fn.inl[o]; ok {
			// an inlined local stands for its definition: its operands are the seeds
			fn.tracked[o] = true
			for _, p := range fn.localsIn(rhs, true) {
				work = append(work, p)
			}
			return
		}
		fn.tracked[o] = true
		work = append(work, o)
	}
	for _, o := range seeds {
		push(o)
	}
	for len(work) > 0 {
		o := work[len(work)-1]
		work = work[:len(work)-1]
		if !fn.tracked[o] {
			push(o)
			continue
		}
		for _, s := range fn.sites[o] {
			if s.rhs != nil {
				for _, p := range fn.localsIn(s.rhs, true) {
					push(p)
				}
			}
		}
	}
}

// isDef: the assignment defines or assigns a verdict variable (one that is not inlined)
func (fn *fnorm) isDef(lhs []ast.Expr) bool {
	for _, l := range lhs {
		if o := fn.obj(l); o != nil && fn.tracked[o] {
			if _, inlined := fn.inl[o]; !inlined {
				return true
			}
		}
	}
	return false
}

// renumberRows: position tokens of the rows of ONE function → ‹0›, ‹1›, … in order of first appearance
func renumberRows(rows [][2]string) [][2]string {
	flat := make([]string, 0, 2*len(rows))
	for _, r := range rows {
		flat = append(flat, r[0], r[1])
	}
	flat = renumber(flat)
	out := make([][2]string, len(rows))
	for i := range rows {
		out[i] = [2]string{flat[2*i], flat[2*i+1]}
	}
	return out
}

func renumber1(s string) string { return renumber([]string{s})[0] }

// canonBoolF prints a boolean expression with the operands of every && / || chain sorted; leaves
// are printed by `leaf`
func canonBoolF(e ast.Expr, leaf func(ast.Expr) string) string {
	switch x := e.(type) {
	case *ast.ParenExpr:
		return "(" + canonBoolF(x.X, leaf) + ")"
	case *ast.BinaryExpr:
		if x.Op == token.LAND || x.Op == token.LOR {
			var ops []string
			var collect func(e ast.Expr)
			collect = func(e ast.Expr) {
				if b, ok := e.(*ast.BinaryExpr); ok && b.Op == x.Op {
					collect(b.X)
					collect(b.Y)
					return
				}
				ops = append(ops, canonBoolF(e, leaf))
			}
			collect(x)
			sort.Strings(ops)
			return strings.Join(ops, " "+x.Op.String()+" ")
		}
	case *ast.UnaryExpr:
		if x.Op == token.NOT {
			return "!" + canonBoolF(x.X, leaf)
		}
	}
	return leaf(e)
}
