package main

import (
	"go/ast"
	"strings"
)

// genVarLayers: the order in which Compiler.getVariables writes its layers (the
// `for k, v := range X.All()` loops, which closure each uses), where the task directory
// is resolved relative to those loops, where the early return for a nil task/call sits;
// the order of the env merges in compiledTask; the OS-environment guard in GetFromVars;
// the key of the dynamic-variable cache.
func genVarLayers() {
	l := newLean("VarLayers", "compiler.go getVariables layer order, compiledTask env merges, env.GetFromVars guard, dynamic cache key.")
	root := loadDir(".")
	fd := root.funcDecl("Compiler.getVariables")
	var order [][2]string
	var marks []string
	// names of the receiver and parameters → their types, so that renaming them changes nothing
	tyOf := map[string]string{}
	if fd != nil {
		if fd.Recv != nil {
			for _, f := range fd.Recv.List {
				for _, n := range f.Names {
					tyOf[n.Name] = strings.TrimPrefix(src(f.Type), "*")
				}
			}
		}
		for _, f := range fd.Type.Params.List {
			for _, n := range f.Names {
				tyOf[n.Name] = strings.TrimPrefix(src(f.Type), "*")
			}
		}
	}
	norm := func(e string) string {
		if i := strings.Index(e, "."); i > 0 {
			if t, ok := tyOf[e[:i]]; ok {
				return t + e[i:]
			}
		}
		return e
	}
	// closures made by getRangeFunc(<dir>): "root" when applied to <receiver>.Dir, else "task"
	closure := map[string]string{}
	if fd != nil {
		ast.Inspect(fd, func(n ast.Node) bool {
			as, ok := n.(*ast.AssignStmt)
			if !ok || len(as.Lhs) != 1 || len(as.Rhs) != 1 {
				return true
			}
			ce, ok := as.Rhs[0].(*ast.CallExpr)
			if !ok || src(ce.Fun) != "getRangeFunc" || len(ce.Args) != 1 {
				return true
			}
			kind := "task"
			if norm(src(ce.Args[0])) == "Compiler.Dir" {
				kind = "root"
			}
			closure[src(as.Lhs[0])] = kind
			return true
		})
	}
	if fd != nil {
		var walk func(stmts []ast.Stmt)
		walk = func(stmts []ast.Stmt) {
			for _, st := range stmts {
				switch x := st.(type) {
				case *ast.RangeStmt:
					xs := src(x.X)
					if strings.HasSuffix(xs, ".All()") {
						fn := ""
						ast.Inspect(x.Body, func(n ast.Node) bool {
							if ce, ok := n.(*ast.CallExpr); ok {
								if id, ok := ce.Fun.(*ast.Ident); ok {
									if k, ok := closure[id.Name]; ok {
										fn = k
									}
								}
							}
							return true
						})
						order = append(order, [2]string{norm(strings.TrimSuffix(xs, ".All()")), fn})
						marks = append(marks, "loop:"+norm(strings.TrimSuffix(xs, ".All()")))
					} else if xs == "specialVars" {
						marks = append(marks, "special")
					}
				case *ast.AssignStmt:
					s := src(x)
					if strings.HasPrefix(s, "result := env.GetEnviron()") {
						marks = append(marks, "osEnviron")
					}
					if len(x.Lhs) == 1 && closure[src(x.Lhs[0])] == "task" && strings.Contains(s, "getRangeFunc(") {
						marks = append(marks, "taskDirResolved")
					}
				case *ast.IfStmt:
					c := src(x.Cond)
					if c == "t == nil || call == nil" {
						marks = append(marks, "returnIfNoTaskOrCall")
					}
					walk(x.Body.List)
				}
			}
		}
		walk(fd.Body.List)
	}
	l.pairList("order", order)
	l.strList("marks", marks)

	// compiledTask: new.Env.Merge(templater.ReplaceVars(X, cache), nil) in order
	var merges []string
	if ct := root.funcDecl("Executor.compiledTask"); ct != nil {
		ast.Inspect(ct, func(n ast.Node) bool {
			ce, ok := n.(*ast.CallExpr)
			if !ok || src(ce.Fun) != "new.Env.Merge" || len(ce.Args) == 0 {
				return true
			}
			if inner, ok := ce.Args[0].(*ast.CallExpr); ok && len(inner.Args) > 0 {
				merges = append(merges, src(inner.Args[0]))
			} else {
				merges = append(merges, src(ce.Args[0]))
			}
			return true
		})
		// first dotenv file wins: the `if _, ok := dotenvEnvs.Get(key); !ok` guard
		first := false
		ast.Inspect(ct, func(n ast.Node) bool {
			if is, ok := n.(*ast.IfStmt); ok && is.Init != nil && contains(src(is.Init), "dotenvEnvs.Get(key)") && src(is.Cond) == "!ok" {
				first = true
			}
			return true
		})
		l.bool("firstDotenvWins", first)
	}
	l.strList("envMerges", merges)

	// env.GetFromVars: skip keys already in the OS environment unless the experiment is on
	envp := loadDir("internal/env")
	guard := ""
	if g := envp.funcDecl("GetFromVars"); g != nil {
		ast.Inspect(g, func(n ast.Node) bool {
			is, ok := n.(*ast.IfStmt)
			if !ok {
				return true
			}
			if contains(src(is.Cond), "EnvPrecedence.Enabled()") {
				inner := ""
				ast.Inspect(is.Body, func(m ast.Node) bool {
					if i2, ok := m.(*ast.IfStmt); ok && i2.Init != nil && contains(src(i2.Init), "os.LookupEnv(k)") {
						for _, b := range i2.Body.List {
							inner += src(i2.Cond) + "=>" + src(b)
						}
					}
					return true
				})
				guard = src(is.Cond) + " : " + inner
			}
			return true
		})
		appendsAfter := contains(src(g.Body), "environ := os.Environ()") && contains(src(g.Body), "environ = append(environ,")
		l.bool("appendsToOsEnviron", appendsAfter)
	}
	l.str("osEnvGuard", guard)

	// HandleDynamicVar: what keys the cache
	key := ""
	if h := root.funcDecl("Compiler.HandleDynamicVar"); h != nil {
		ast.Inspect(h, func(n ast.Node) bool {
			if ix, ok := n.(*ast.IndexExpr); ok && src(ix.X) == "c.dynamicCache" {
				key = src(ix.Index)
			}
			return true
		})
		keyDef := ""
		ast.Inspect(h, func(n ast.Node) bool {
			if as, ok := n.(*ast.AssignStmt); ok && len(as.Lhs) == 1 && src(as.Lhs[0]) == key && len(as.Rhs) == 1 {
				keyDef = src(as.Rhs[0])
			}
			return true
		})
		l.str("dynamicCacheKey", key)
		l.str("dynamicCacheKeyDef", keyDef)
		l.bool("dynamicCacheLocked", contains(src(h.Body), "c.muDynamicCache.Lock()") && contains(src(h.Body), "defer c.muDynamicCache.Unlock()"))
	}
	l.write()
}
