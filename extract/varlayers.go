package main

import (
	"go/ast"
	"strings"
)

// genVarLayers: the order in which Compiler.getVariables writes its layers (the
// `for k, v := range X.All()` loops, which closure each uses), where the task directory
// is resolved relative to those loops, where the early return for a nil task/call sits;
// the order of the env merges in compiledTask; the OS-environment guard in GetFromVars;
// the key of the dynamic-variable cache.
func genVarLayers() {
	l := newLean("VarLayers", "compiler.go getVariables layer order, compiledTask env merges, env.GetFromVars guard, dynamic cache key.")
	root := loadDir(".")
	fd := root.funcDecl("Compiler.getVariables")
	var order [][2]string
	var marks []string
	// names of the receiver and parameters → their types, so that renaming them changes nothing
	tyOf := map[string]string{}
	if fd != nil {
		if fd.Recv != nil {
			for _, f := range fd.Recv.List {
				for _, n := range f.Names {
					tyOf[n.Name] = strings.TrimPrefix(src(f.Type), "*")
				}
			}
		}
		for _, f := range fd.Type.Params.List {
			for _, n := range f.Names {
				tyOf[n.Name] = strings.TrimPrefix(src(f.Type), "*")
			}
		}
	}
	norm := func(e string) string {
		if i := strings.Index(e, "."); i > 0 {
			if t, ok := tyOf[e[:i]]; ok {
				return t + e[i:]
			}
		}
		return e
	}
	// closures made by getRangeFunc(<dir>): "root" when applied to <receiver>.Dir, else "task"
	closure := map[string]string{}
	lazyDir, lazyExpand, lazyClosure := false, false, ""
	if fd != nil {
		ast.Inspect(fd, func(n ast.Node) bool {
			as, ok := n.(*ast.AssignStmt)
			if !ok || len(as.Lhs) != 1 || len(as.Rhs) != 1 {
				return true
			}
			if fl, ok := as.Rhs[0].(*ast.FuncLit); ok {
				// a closure that resolves the directory itself and then applies getRangeFunc(<dir>)(k, v):
				// "task" when that directory comes from templating <task>.Dir, per call of the closure
				inner := ""
				ast.Inspect(fl.Body, func(m ast.Node) bool {
					if ce, ok := m.(*ast.CallExpr); ok && src(ce.Fun) == "getRangeFunc" && len(ce.Args) == 1 {
						inner = norm(src(ce.Args[0]))
					}
					return true
				})
				if inner != "" {
					kind := "task"
					if inner == "Compiler.Dir" {
						kind = "root"
					}
					closure[src(as.Lhs[0])] = kind
					body := src(fl.Body)
					lazyDir = contains(body, "templater.Replace(") && contains(norm2(body, tyOf), "ast.Task.Dir")
					lazyExpand = contains(body, "execext.ExpandLiteral(")
					lazyClosure = src(as.Lhs[0])
				}
				return true
			}
			ce, ok := as.Rhs[0].(*ast.CallExpr)
			if !ok || src(ce.Fun) != "getRangeFunc" || len(ce.Args) != 1 {
				return true
			}
			kind := "task"
			if norm(src(ce.Args[0])) == "Compiler.Dir" {
				kind = "root"
			}
			closure[src(as.Lhs[0])] = kind
			return true
		})
	}
	if fd != nil {
		var walk func(stmts []ast.Stmt)
		walk = func(stmts []ast.Stmt) {
			for _, st := range stmts {
				switch x := st.(type) {
				case *ast.RangeStmt:
					xs := src(x.X)
					if strings.HasSuffix(xs, ".All()") {
						fn := ""
						ast.Inspect(x.Body, func(n ast.Node) bool {
							if ce, ok := n.(*ast.CallExpr); ok {
								if id, ok := ce.Fun.(*ast.Ident); ok {
									if k, ok := closure[id.Name]; ok {
										fn = k
									}
								}
							}
							return true
						})
						order = append(order, [2]string{norm(strings.TrimSuffix(xs, ".All()")), fn})
						marks = append(marks, "loop:"+norm(strings.TrimSuffix(xs, ".All()")))
					} else if xs == "specialVars" {
						marks = append(marks, "special")
					}
				case *ast.AssignStmt:
					s := src(x)
					if strings.HasPrefix(s, "result := env.GetEnviron()") {
						marks = append(marks, "osEnviron")
					}
					if len(x.Lhs) == 1 && closure[src(x.Lhs[0])] == "task" && strings.Contains(s, "getRangeFunc(") {
						if src(x.Lhs[0]) == lazyClosure {
							marks = append(marks, "taskDirClosure") // the directory is resolved inside the closure, when a variable needs it
						} else {
							marks = append(marks, "taskDirResolved")
						}
					}
				case *ast.IfStmt:
					c := src(x.Cond)
					if c == "t == nil || call == nil" {
						marks = append(marks, "returnIfNoTaskOrCall")
					}
					walk(x.Body.List)
				}
			}
		}
		walk(fd.Body.List)
	}
	l.pairList("order", order)
	l.strList("marks", marks)
	// the task directory of the `sh:` variables: templated from <task>.Dir each time the closure runs, and expanded (`~`) like compiledTask does
	l.bool("taskDirPerVariable", lazyDir)
	l.bool("taskDirExpandsLiteral", lazyExpand)

	// compiledTask: new.Env.Merge(templater.ReplaceVars(X, cache), nil) in order
	var merges []string
	if ct := root.funcDecl("Executor.compiledTask"); ct != nil {
		ast.Inspect(ct, func(n ast.Node) bool {
			ce, ok := n.(*ast.CallExpr)
			if !ok || src(ce.Fun) != "new.Env.Merge" || len(ce.Args) == 0 {
				return true
			}
			if inner, ok := ce.Args[0].(*ast.CallExpr); ok && len(inner.Args) > 0 {
				merges = append(merges, src(inner.Args[0]))
			} else {
				merges = append(merges, src(ce.Args[0]))
			}
			return true
		})
		// first dotenv file wins: the `if _, ok := dotenvEnvs.Get(key); !ok` guard
		first := false
		ast.Inspect(ct, func(n ast.Node) bool {
			if is, ok := n.(*ast.IfStmt); ok && is.Init != nil && contains(src(is.Init), "dotenvEnvs.Get(key)") && src(is.Cond) == "!ok" {
				first = true
			}
			return true
		})
		l.bool("firstDotenvWins", first)
	}
	l.strList("envMerges", merges)

	// env.GetFromVars: skip keys already in the OS environment unless the experiment is on
	envp := loadDir("internal/env")
	guard := ""
	if g := envp.funcDecl("GetFromVars"); g != nil {
		ast.Inspect(g, func(n ast.Node) bool {
			is, ok := n.(*ast.IfStmt)
			if !ok {
				return true
			}
			if contains(src(is.Cond), "EnvPrecedence.Enabled()") {
				inner := ""
				ast.Inspect(is.Body, func(m ast.Node) bool {
					if i2, ok := m.(*ast.IfStmt); ok && i2.Init != nil && contains(src(i2.Init), "os.LookupEnv(k)") {
						for _, b := range i2.Body.List {
							inner += src(i2.Cond) + "=>" + src(b)
						}
					}
					return true
				})
				guard = src(is.Cond) + " : " + inner
			}
			return true
		})
		appendsAfter := contains(src(g.Body), "environ := os.Environ()") && contains(src(g.Body), "environ = append(environ,")
		l.bool("appendsToOsEnviron", appendsAfter)
	}
	l.str("osEnvGuard", guard)

	// HandleDynamicVar: what keys the cache
	key := ""
	if h := root.funcDecl("Compiler.HandleDynamicVar"); h != nil {
		ast.Inspect(h, func(n ast.Node) bool {
			if ix, ok := n.(*ast.IndexExpr); ok && src(ix.X) == "c.dynamicCache" {
				key = src(ix.Index)
			}
			return true
		})
		keyDef := ""
		ast.Inspect(h, func(n ast.Node) bool {
			if as, ok := n.(*ast.AssignStmt); ok && len(as.Lhs) == 1 && src(as.Lhs[0]) == key && len(as.Rhs) == 1 {
				keyDef = src(as.Rhs[0])
			}
			return true
		})
		l.str("dynamicCacheKey", key)
		l.str("dynamicCacheKeyDef", keyDef)
		l.bool("dynamicCacheLocked", contains(src(h.Body), "c.muDynamicCache.Lock()") && contains(src(h.Body), "defer c.muDynamicCache.Unlock()"))
	}
	// getSpecialVars: which special variables exist and what each is computed from (the model's `Vars.special`);
	// receiver / parameter names are replaced by their types
	var specials [][2]string
	if g := root.funcDecl("Compiler.getSpecialVars"); g != nil {
		ty := map[string]string{}
		if g.Recv != nil {
			for _, f := range g.Recv.List {
				for _, n := range f.Names {
					ty[n.Name] = strings.TrimPrefix(src(f.Type), "*")
				}
			}
		}
		for _, f := range g.Type.Params.List {
			for _, n := range f.Names {
				ty[n.Name] = strings.TrimPrefix(src(f.Type), "*")
			}
		}
		var normExpr func(e ast.Expr) string
		normExpr = func(e ast.Expr) string {
			switch x := e.(type) {
			case *ast.Ident:
				if t, ok := ty[x.Name]; ok {
					return t
				}
				return x.Name
			case *ast.SelectorExpr:
				return normExpr(x.X) + "." + x.Sel.Name
			case *ast.CallExpr:
				var as []string
				for _, a := range x.Args {
					as = append(as, normExpr(a))
				}
				return normExpr(x.Fun) + "(" + strings.Join(as, ", ") + ")"
			case *ast.IndexExpr:
				return normExpr(x.X) + "[" + normExpr(x.Index) + "]"
			}
			return src(e)
		}
		mapVar := ""
		var walk func(stmts []ast.Stmt, guard string)
		walk = func(stmts []ast.Stmt, guard string) {
			for _, st := range stmts {
				switch x := st.(type) {
				case *ast.AssignStmt:
					if len(x.Lhs) != 1 || len(x.Rhs) != 1 {
						continue
					}
					if cl, ok := x.Rhs[0].(*ast.CompositeLit); ok && strings.HasPrefix(src(cl.Type), "map[string]") {
						mapVar = src(x.Lhs[0])
						for _, el := range cl.Elts {
							if kv, ok := el.(*ast.KeyValueExpr); ok {
								specials = append(specials, [2]string{strings.Trim(src(kv.Key), "\""), normExpr(kv.Value)})
							}
						}
					}
					if ix, ok := x.Lhs[0].(*ast.IndexExpr); ok && src(ix.X) == mapVar && guard != "" {
						v := normExpr(x.Rhs[0])
						if v != "\"\"" { // the else branches (no task / no call) set the empty string
							specials = append(specials, [2]string{strings.Trim(src(ix.Index), "\""), v})
						}
					}
				case *ast.IfStmt:
					walk(x.Body.List, normExpr(x.Cond))
					if eb, ok := x.Else.(*ast.BlockStmt); ok {
						walk(eb.List, "else")
					}
				}
			}
		}
		walk(g.Body.List, "")
	}
	sortPairs(specials)
	l.pairList("specialVars", specials)

	// compiledTask: the POST layer (`vars.Set(<KIND>, ast.Var{Live: value})`) and whether it comes after the variables were resolved
	post, postAfter := "", false
	if ct := root.funcDecl("Executor.compiledTask"); ct != nil {
		getPos, setPos := 0, 0
		ast.Inspect(ct, func(n ast.Node) bool {
			ce, ok := n.(*ast.CallExpr)
			if !ok {
				return true
			}
			if strings.HasSuffix(src(ce.Fun), ".Compiler.GetVariables") && getPos == 0 {
				getPos = int(ce.Pos())
			}
			if src(ce.Fun) == "vars.Set" && len(ce.Args) == 2 && contains(src(ce.Args[1]), "Live:") {
				post = src(ce.Args[0])
				// the checker is a local: print the shape only
				if up, ok := ce.Args[0].(*ast.CallExpr); ok && src(up.Fun) == "strings.ToUpper" && len(up.Args) == 1 {
					if k, ok := up.Args[0].(*ast.CallExpr); ok {
						if sel, ok := k.Fun.(*ast.SelectorExpr); ok {
							post = "strings.ToUpper(‹checker›." + sel.Sel.Name + "())"
						}
					}
				}
				setPos = int(ce.Pos())
			}
			return true
		})
		postAfter = getPos > 0 && setPos > getPos
	}
	l.str("postLayerKey", post)
	l.bool("postLayerAfterLayers", postAfter)

	// GetTask: MATCH is bound in the call's variables when the task was found by name / wildcard, not on the alias path
	matchSet := ""
	if gt := root.funcDecl("Executor.GetTask"); gt != nil {
		seenAliases := false
		for _, st := range gt.Body.List {
			if contains(src(st), ".Aliases") {
				seenAliases = true
			}
			is, ok := st.(*ast.IfStmt)
			if !ok {
				continue
			}
			ast.Inspect(is.Body, func(n ast.Node) bool {
				if ce, ok := n.(*ast.CallExpr); ok && strings.HasSuffix(src(ce.Fun), ".Vars.Set") && len(ce.Args) == 2 && src(ce.Args[0]) == "\"MATCH\"" {
					matchSet = "name-or-wildcard-match"
					if seenAliases {
						matchSet = "also-on-alias-path"
					}
					if len(is.Body.List) == 0 || !strings.HasPrefix(src(is.Body.List[len(is.Body.List)-1]), "return") {
						matchSet += ":falls-through"
					}
				}
				return true
			})
		}
	}
	l.str("matchBoundWhen", matchSet)

	// cmd/task: the command-line layer — which names are set on the map of NAME=value assignments, and how it reaches the globals
	var cli []string
	if run := loadDir("cmd/task").funcDecl("run"); run != nil {
		ast.Inspect(run, func(n ast.Node) bool {
			ce, ok := n.(*ast.CallExpr)
			if !ok {
				return true
			}
			f := src(ce.Fun)
			if f == "globals.Set" && len(ce.Args) == 2 {
				cli = append(cli, "set:"+strings.Trim(src(ce.Args[0]), "\""))
			}
			if strings.HasSuffix(f, ".Merge") && len(ce.Args) >= 1 && src(ce.Args[0]) == "globals" {
				tgt := strings.TrimSuffix(f, ".Merge")
				if i := strings.Index(tgt, "."); i > 0 {
					tgt = "‹executor›" + tgt[i:] // the executor is a local of run()
				}
				cli = append(cli, "merge-into:"+tgt)
			}
			return true
		})
	}
	l.strList("cliLayer", cli)

	// Vars.Merge: every entry of the other map is `Set` into the ordered map (an existing key keeps its position)
	mergeSet := false
	if vm := loadDir("taskfile/ast").funcDecl("Vars.Merge"); vm != nil {
		mergeSet = contains(src(vm.Body), "vars.om.Set(pair.Key, value)") && contains(src(vm.Body), "other.om.Front()")
	}
	l.bool("mergeSetsInOrder", mergeSet)
	l.write()
}

// norm2: every `<ident>.` whose identifier is a receiver / parameter is replaced by its type
func norm2(body string, tyOf map[string]string) string {
	for n, t := range tyOf {
		body = strings.ReplaceAll(body, "("+n+".", "("+t+".")
		body = strings.ReplaceAll(body, " "+n+".", " "+t+".")
	}
	return body
}

func sortPairs(ps [][2]string) {
	for i := 1; i < len(ps); i++ {
		for j := i; j > 0 && ps[j][0] < ps[j-1][0]; j-- {
			ps[j], ps[j-1] = ps[j-1], ps[j]
		}
	}
}
