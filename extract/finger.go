package main

import (
	"go/ast"
	"go/token"
	"sort"
	"strconv"
	"strings"
)

// ---- generic control-flow fingerSkeleton walker
//
// The walker visits a function body in source order and records, for every call whose
// callee is "interesting" (and for returns / selected assignments), the chain of
// GUARDS under which it is reached:
//
//   if C {…}            body: C                 else: !(C)
//   for … range X {…}   range X
//   for init; c; post   for c   (or "for")
//   case a, b: / default:   (switch, type switch, select)
//   if C {…; return}    every later statement of the same block: !(C)   (also `continue`)
//
// Guards that mention an error variable (fnorm: structurally — the last result of a call, a value
// returned as `error`, …, never by its name) are error plumbing: they stay on the stack but are
// not printed.  A return is classed as error plumbing iff the innermost enclosing if-condition
// mentions an error variable.
//
// Function literals are descended into.  Their body starts from an EMPTY guard stack
// (the guards are those relative to the closure being invoked); the guards in force
// where the literal appears are recorded once as a `func` entry at that position.
//
// Within one statement calls are listed in source (pre-)order, i.e. an outer call
// before the calls in its arguments; the entry for the statement itself (return,
// assign) follows the calls it contains.
//
// NO TEXT DEPENDS ON THE NAME OF A LOCAL VARIABLE (see fnorm.go): callees whose receiver is a
// local are printed by the local's origin, pure single definitions are inlined, every other
// local is a placeholder ‹k› numbered per function; `def …` rows are the definitions of the
// verdict variables (the locals that reach a kept return or a visible guard).

type skKind int

const (
	skCall      skKind = iota
	skReturn           // a return that is kept
	skErrReturn        // a return directly under an error condition (guards = "cond | source of the error")
	skAssign           // x[i] = v   /   x = append(x, …)
	skFunc             // position of a function literal
	skDef              // definition / assignment of a verdict variable (FULL guard chain, error conditions included)
)

type skEntry struct {
	kind    skKind
	what    string
	guards  string
	swallow bool // skErrReturn: the returned values do not mention an error variable
}

type skGuard struct {
	text   string
	hidden bool
}

type skWalker struct {
	fn          *fnorm
	interesting func(string) bool
	collect     bool // first pass: only gather the seeds of the verdict variables
	seeds       []*ast.Object
	guards      []skGuard
	ifConds     []ast.Expr
	ifNeg       []bool // the condition holds negated (else branch)
	lastErr     string // what was last assigned to an error variable (callee of the call, else the rhs text)
	out         []skEntry
}

// push a guard: `prefix` + normal form of e (+ `suffix`); hidden iff e mentions an error variable
func (w *skWalker) push(prefix string, e ast.Expr, suffix string) {
	hidden := e != nil && w.fn.mentionsErr(e)
	text := prefix
	if e != nil {
		// guard conditions are printed with the operands of && / || chains sorted: reordering them is not a change
		text += canonBoolF(e, func(x ast.Expr) string { return w.fn.text(x) })
	}
	w.guards = append(w.guards, skGuard{text + suffix, hidden})
	if w.collect && !hidden && e != nil {
		w.seeds = append(w.seeds, w.fn.localsIn(e, false)...)
	}
}

func (w *skWalker) chain() string {
	var gs []string
	for _, g := range w.guards {
		if !g.hidden {
			gs = append(gs, g.text)
		}
	}
	return strings.Join(gs, " && ")
}

// chainAll: the guard chain with the error conditions left in (used for `def` entries: whether a
// verdict variable is cleared under an error condition matters).
func (w *skWalker) chainAll() string {
	var gs []string
	for _, g := range w.guards {
		gs = append(gs, g.text)
	}
	return strings.Join(gs, " && ")
}

func (w *skWalker) emit(k skKind, what, guards string) {
	if !w.collect {
		w.out = append(w.out, skEntry{kind: k, what: what, guards: guards})
	}
}

func endsInExit(b *ast.BlockStmt) bool {
	if b == nil || len(b.List) == 0 {
		return false
	}
	switch s := b.List[len(b.List)-1].(type) {
	case *ast.ReturnStmt:
		return true
	case *ast.BranchStmt:
		return s.Tok == token.CONTINUE
	}
	return false
}

func (w *skWalker) stmts(list []ast.Stmt) {
	mark := len(w.guards)
	for _, s := range list {
		w.stmt(s)
		if is, ok := s.(*ast.IfStmt); ok && is.Else == nil && endsInExit(is.Body) {
			w.push("!(", is.Cond, ")")
		}
	}
	w.guards = w.guards[:mark]
}

// guarded runs f with one more guard on the stack.
func (w *skWalker) guarded(prefix string, e ast.Expr, suffix string, f func()) {
	mark := len(w.guards)
	w.push(prefix, e, suffix)
	f()
	w.guards = w.guards[:mark]
}

func (w *skWalker) textList(es []ast.Expr) string {
	ss := make([]string, len(es))
	for i, e := range es {
		ss[i] = w.fn.text(e)
	}
	return strings.Join(ss, ", ")
}

func srcList(es []ast.Expr) string {
	ss := make([]string, len(es))
	for i, e := range es {
		ss[i] = src(e)
	}
	return strings.Join(ss, ", ")
}

func (w *skWalker) stmt(s ast.Stmt) {
	switch x := s.(type) {
	case nil:
	case *ast.BlockStmt:
		w.stmts(x.List)
	case *ast.IfStmt:
		w.stmt(x.Init)
		w.expr(x.Cond)
		nIf := len(w.ifConds)
		w.ifConds, w.ifNeg = append(w.ifConds, x.Cond), append(w.ifNeg, false)
		w.guarded("", x.Cond, "", func() { w.stmts(x.Body.List) })
		if x.Else != nil {
			w.ifNeg[nIf] = true
			w.guarded("!(", x.Cond, ")", func() { w.stmt(x.Else) })
		}
		w.ifConds, w.ifNeg = w.ifConds[:nIf], w.ifNeg[:nIf]
	case *ast.ForStmt:
		w.stmt(x.Init)
		w.expr(x.Cond)
		prefix := "for"
		if x.Cond != nil {
			prefix = "for "
		}
		w.guarded(prefix, x.Cond, "", func() {
			w.stmts(x.Body.List)
			w.stmt(x.Post)
		})
	case *ast.RangeStmt:
		w.expr(x.Key)
		w.expr(x.Value)
		w.expr(x.X)
		w.guarded("range ", x.X, "", func() { w.stmts(x.Body.List) })
	case *ast.SwitchStmt:
		w.stmt(x.Init)
		w.expr(x.Tag)
		w.clauses(x.Body)
	case *ast.TypeSwitchStmt:
		w.stmt(x.Init)
		w.stmt(x.Assign)
		w.clauses(x.Body)
	case *ast.SelectStmt:
		w.clauses(x.Body)
	case *ast.ReturnStmt:
		for _, r := range x.Results {
			w.expr(r)
		}
		what := "return"
		if res := w.textList(x.Results); res != "" {
			what += " " + res
		}
		if n := len(w.ifConds); n > 0 && w.fn.mentionsErr(w.ifConds[n-1]) {
			if !w.collect {
				swallow := true
				for _, r := range x.Results {
					if w.fn.mentionsErr(r) {
						swallow = false
					}
				}
				cond := w.fn.text(w.ifConds[n-1])
				if w.ifNeg[n-1] {
					cond = "!(" + cond + ")"
				}
				w.out = append(w.out, skEntry{kind: skErrReturn, what: what, guards: cond + " | " + w.lastErr, swallow: swallow})
			}
		} else {
			w.emit(skReturn, what, w.chain())
			if w.collect {
				for _, r := range x.Results {
					w.seeds = append(w.seeds, w.fn.localsIn(r, false)...)
				}
			}
		}
	case *ast.AssignStmt:
		for _, r := range x.Rhs {
			w.expr(r)
		}
		for _, l := range x.Lhs {
			w.expr(l)
		}
		note := false
		for _, l := range x.Lhs {
			if _, ok := l.(*ast.IndexExpr); ok {
				note = true
			}
			if o := w.fn.obj(l); o != nil && w.fn.errs[o] {
				w.lastErr = w.textList(x.Rhs)
				if ce, ok := x.Rhs[0].(*ast.CallExpr); ok && len(x.Rhs) == 1 {
					w.lastErr = w.fn.callee(ce.Fun)
				}
			}
		}
		for _, r := range x.Rhs {
			if ce, ok := r.(*ast.CallExpr); ok && src(ce.Fun) == "append" {
				note = true
			}
		}
		if note {
			w.emit(skAssign, "assign "+w.fn.text(x), w.chain())
		}
		if !note && w.fn.isDef(x.Lhs) {
			w.emit(skDef, "def "+w.fn.text(x), w.chainAll())
		}
	case *ast.ExprStmt:
		w.expr(x.X)
	case *ast.DeferStmt:
		w.expr(x.Call)
	case *ast.GoStmt:
		w.expr(x.Call)
	case *ast.DeclStmt:
		if gd, ok := x.Decl.(*ast.GenDecl); ok {
			for _, sp := range gd.Specs {
				if vs, ok := sp.(*ast.ValueSpec); ok {
					for _, v := range vs.Values {
						w.expr(v)
					}
					var lhs []ast.Expr
					for _, id := range vs.Names {
						lhs = append(lhs, id)
					}
					if len(vs.Values) > 0 && w.fn.isDef(lhs) {
						w.emit(skDef, "def var "+w.fn.text(vs), w.chainAll())
					}
				}
			}
		}
	case *ast.IncDecStmt:
		w.expr(x.X)
	case *ast.SendStmt:
		w.expr(x.Chan)
		w.expr(x.Value)
	case *ast.LabeledStmt:
		w.stmt(x.Stmt)
	}
}

func (w *skWalker) clauses(body *ast.BlockStmt) {
	if body == nil {
		return
	}
	for _, c := range body.List {
		switch cc := c.(type) {
		case *ast.CaseClause:
			if cc.List == nil {
				w.guarded("default", nil, "", func() { w.stmts(cc.Body) })
				continue
			}
			for _, e := range cc.List {
				w.expr(e)
			}
			// one guard for the whole list `case a, b`
			mark := len(w.guards)
			hidden := false
			for _, e := range cc.List {
				if w.fn.mentionsErr(e) {
					hidden = true
				}
				if w.collect {
					w.seeds = append(w.seeds, w.fn.localsIn(e, false)...)
				}
			}
			w.guards = append(w.guards, skGuard{"case " + w.textList(cc.List), hidden})
			w.stmts(cc.Body)
			w.guards = w.guards[:mark]
		case *ast.CommClause:
			if cc.Comm == nil {
				w.guarded("default", nil, "", func() { w.stmts(cc.Body) })
				continue
			}
			w.stmt(cc.Comm)
			mark := len(w.guards)
			w.guards = append(w.guards, skGuard{"case " + w.fn.text(cc.Comm), w.fn.mentionsErr(cc.Comm)})
			w.stmts(cc.Body)
			w.guards = w.guards[:mark]
		}
	}
}

func (w *skWalker) expr(e ast.Expr) {
	if e == nil {
		return
	}
	ast.Inspect(e, func(n ast.Node) bool {
		switch x := n.(type) {
		case *ast.FuncLit:
			w.emit(skFunc, "func", w.chain())
			g, ic, in := w.guards, w.ifConds, w.ifNeg
			w.guards, w.ifConds, w.ifNeg = nil, nil, nil
			w.stmts(x.Body.List)
			w.guards, w.ifConds, w.ifNeg = g, ic, in
			return false
		case *ast.CallExpr:
			if c := w.fn.callee(x.Fun); w.interesting(c) {
				w.emit(skCall, c, w.chain())
			}
		}
		return true
	})
}

// walkSkeleton: the entries of one function in source order; locals are still position tokens —
// the caller selects the entries it emits and numbers the locals with `renumberEntries`.
func walkSkeleton(fd *ast.FuncDecl, interesting func(string) bool) []skEntry {
	if fd == nil || fd.Body == nil {
		return nil
	}
	fn := fnormOf(fd)
	pass1 := &skWalker{fn: fn, interesting: interesting, collect: true}
	pass1.stmts(fd.Body.List)
	fn.track(pass1.seeds)
	w := &skWalker{fn: fn, interesting: interesting}
	w.stmts(fd.Body.List)
	return w.out
}

// renumberEntries: the locals of ONE function → ‹0›, ‹1›, … by first appearance in the groups, in
// the order given (the table rows first, then what is listed elsewhere about the same function)
func renumberEntries(groups ...[]skEntry) {
	var rows [][2]string
	for _, g := range groups {
		for _, e := range g {
			rows = append(rows, [2]string{e.what, e.guards})
		}
	}
	rows = renumberRows(rows)
	k := 0
	for _, g := range groups {
		for i := range g {
			g[i].what, g[i].guards = rows[k][0], rows[k][1]
			k++
		}
	}
}

// flattenLayout forgets the line structure of every file parsed so far.  go/printer
// keeps the line breaks of the original inside argument lists and composite literals
// (`f( a, b, )` after whitespace normalisation); with a single-line line table src()
// depends on the token sequence only, so re-wrapping an expression does not change
// the tables.  Nothing in the extractor reports line numbers.
func flattenLayout() {
	fset.Iterate(func(f *token.File) bool {
		f.SetLines([]int{0})
		return true
	})
}

func setOf(xs ...string) func(string) bool {
	m := map[string]bool{}
	for _, x := range xs {
		m[x] = true
	}
	return func(s string) bool { return m[s] }
}

// enclosingFnorm: the normaliser of the function declaration a node of `p` lies in
type fnormCache map[*ast.FuncDecl]*fnorm

func (c fnormCache) of(fd *ast.FuncDecl) *fnorm {
	if f, ok := c[fd]; ok {
		return f
	}
	f := newFnorm(fd)
	c[fd] = f
	return f
}

var sharedNorms = fnormCache{}

func fnormOf(fd *ast.FuncDecl) *fnorm { return sharedNorms.of(fd) }

var _ = sort.Strings

// ---- Table 1: DryWiring

func genDryWiring() {
	l := newLean("DryWiring", "How the dry-run bit travels: Dry/Status flags to Executor.Dry, Executor.Dry to the\nfingerprint checkers, and the guards under which the side-effecting calls of the\nexecutor are reached (guard chains; err plumbing omitted; closure bodies start from an\nempty chain, the chain at the closure itself is the `func` entry).")
	root := loadDir(".")
	fp := loadDir("internal/fingerprint")
	loadDir("internal/flags")
	flattenLayout()

	norms := fnormCache{}
	// calls: who passes what as the dry bit
	qualified := setOf("fingerprint.WithDry", "task.WithDry",
		"fingerprint.NewSourcesChecker", "fingerprint.NewChecksumChecker", "fingerprint.NewTimestampChecker")
	local := setOf("WithDry", "NewSourcesChecker", "NewChecksumChecker", "NewTimestampChecker")
	var calls [][2]string
	for _, d := range []struct {
		rel   string
		local bool
	}{{".", false}, {"internal/flags", false}, {"internal/fingerprint", true}} {
		p := loadDir(d.rel)
		for _, fn := range p.sortedFiles() {
			if fn == "checker_mock.go" {
				continue
			}
			for _, decl := range p.files[fn].Decls {
				encl := "<toplevel>"
				text := func(n ast.Node) string { return src(n) }
				if fd, ok := decl.(*ast.FuncDecl); ok {
					encl = funcName(fd)
					f := norms.of(fd)
					text = func(n ast.Node) string { return renumber1(f.text(n)) } // locals: placeholders per entry
				}
				ast.Inspect(decl, func(n ast.Node) bool {
					ce, ok := n.(*ast.CallExpr)
					if !ok || len(ce.Args) == 0 {
						return true
					}
					c := src(ce.Fun)
					if qualified(c) || (d.local && local(c)) {
						calls = append(calls, [2]string{encl + ":" + c, text(ce.Args[len(ce.Args)-1])})
					}
					return true
				})
			}
		}
	}
	sort.SliceStable(calls, func(i, j int) bool { return calls[i][0] < calls[j][0] })
	l.pairList("calls", calls)

	// fields: where the bit is stored
	var fields [][2]string
	for _, ctor := range []string{"NewChecksumChecker", "NewTimestampChecker"} {
		fd := fp.funcDecl(ctor)
		if fd == nil {
			continue
		}
		for _, cl := range returnedLiterals(fd) {
			for _, e := range cl.Elts {
				if kv, ok := e.(*ast.KeyValueExpr); ok && src(kv.Key) == "dry" {
					fields = append(fields, [2]string{ctor + ".dry", renumber1(norms.of(fd).text(kv.Value))})
				}
			}
		}
	}
	fields = append(fields, optionStores(fp, "WithDry", "WithDry")...)
	fields = append(fields, optionStores(root, "WithDry", "task.WithDry")...)
	l.pairList("fields", fields)

	// guards
	// (`(fingerprint.NewSourcesChecker).OnError`: method OnError called on the value returned by
	// fingerprint.NewSourcesChecker — whatever the local that holds it is called)
	interesting := setOf("e.Logger.Prompt", "e.mkdir", "os.MkdirAll", "e.runCommand", "e.runDeferred",
		"e.statusOnError", "(fingerprint.NewSourcesChecker).OnError", "e.recordFingerprint", "(fingerprint.NewSourcesChecker).IsUpToDate", "execext.RunCommand", "fingerprint.IsTaskUpToDate",
		"e.areTaskPreconditionsMet", "e.runDeps", "e.RunTask", "e.ToEditorOutput", "e.Status",
		"summary.PrintTask", "e.splitRegularAndWatchCalls")
	var guards [][2]string
	for _, fn := range []string{"Executor.RunTask", "Executor.runCommand", "Executor.mkdir", "Executor.Status",
		"Executor.statusOnError", "Executor.recordFingerprint", "Executor.ToEditorOutput", "Executor.ListTasks", "Executor.Run"} {
		var kept []skEntry
		for _, e := range walkSkeleton(root.funcDecl(fn), interesting) {
			if e.kind == skCall || e.kind == skFunc {
				kept = append(kept, e)
			}
		}
		renumberEntries(kept)
		for _, e := range kept {
			guards = append(guards, [2]string{fn + ":" + e.what, e.guards})
		}
	}
	l.pairList("guards", guards)

	// the two conditions of RunTask the model quotes (operands of && / || sorted).  Selected by
	// structure, not by the names of the locals involved:
	//   skipFingerprinting = the definition of the local whose negation guards the call of
	//                        fingerprint.IsTaskUpToDate (inlined by the normal form; if the guard has
	//                        another shape it is printed as `guard: …`);
	//   upToDateReturn     = the condition of the `if` that logs "is up to date" and returns nil; a
	//                        local holding the result of a call is printed as <callee>.
	skip, upToDate := "", ""
	if fd := root.funcDecl("Executor.RunTask"); fd != nil && fd.Body != nil {
		f := norms.of(fd)
		fromCall := func(o *ast.Object) (string, bool) {
			if f.once(o) {
				if ce, ok := f.sites[o][0].rhs.(*ast.CallExpr); ok && f.sites[o][0].index == 0 {
					return "<" + f.callee(ce.Fun) + ">", true
				}
			}
			return "", false
		}
		leaf := func(e ast.Expr) string { return f.textWith(e, fromCall) }
		callsUpToDate := func(n ast.Node) bool {
			found := false
			ast.Inspect(n, func(m ast.Node) bool {
				if ce, ok := m.(*ast.CallExpr); ok && src(ce.Fun) == "fingerprint.IsTaskUpToDate" {
					found = true
				}
				return !found
			})
			return found
		}
		ast.Inspect(fd, func(n ast.Node) bool {
			x, ok := n.(*ast.IfStmt)
			if !ok {
				return true
			}
			if skip == "" && callsUpToDate(x.Body) {
				if u, ok := x.Cond.(*ast.UnaryExpr); ok && u.Op == token.NOT {
					if o := f.obj(u.X); o != nil && f.inl[o] != nil {
						skip = canonBoolF(f.inl[o], leaf)
					}
				}
				if skip == "" {
					skip = "guard: " + canonBoolF(x.Cond, leaf)
				}
			}
			if n := len(x.Body.List); n > 0 && upToDate == "" {
				if rs, ok := x.Body.List[n-1].(*ast.ReturnStmt); ok && srcList(rs.Results) == "nil" && mentionsLiteral(x.Body, "is up to date") {
					upToDate = canonBoolF(x.Cond, leaf)
				}
			}
			return true
		})
		skip, upToDate = renumber1(skip), renumber1(upToDate)
	}
	l.str("skipFingerprinting", skip)
	l.str("upToDateReturn", upToDate)
	l.write()
}

func mentionsLiteral(n ast.Node, sub string) bool {
	found := false
	ast.Inspect(n, func(m ast.Node) bool {
		if bl, ok := m.(*ast.BasicLit); ok && bl.Kind == token.STRING && strings.Contains(bl.Value, sub) {
			found = true
		}
		return !found
	})
	return found
}

// returnedLiterals: the composite literals (T{…} or &T{…}) returned by the function
// itself (not by closures inside it).
func returnedLiterals(fd *ast.FuncDecl) []*ast.CompositeLit {
	out, _ := returnedLiteralsSrc(fd)
	return out
}

// returnedLiteralsSrc also gives the text of each returned expression (with its &).
func returnedLiteralsSrc(fd *ast.FuncDecl) ([]*ast.CompositeLit, []string) {
	var out []*ast.CompositeLit
	var txt []string
	ast.Inspect(fd.Body, func(n ast.Node) bool {
		switch x := n.(type) {
		case *ast.FuncLit:
			return false
		case *ast.ReturnStmt:
			for _, r := range x.Results {
				t := renumber1(fnormOf(fd).text(r))
				if u, ok := r.(*ast.UnaryExpr); ok && u.Op == token.AND {
					r = u.X
				}
				if cl, ok := r.(*ast.CompositeLit); ok {
					out = append(out, cl)
					txt = append(txt, t)
				}
			}
		}
		return true
	})
	return out, txt
}

// optionStores describes what a functional option does with its argument: the
// assignments in the closure it returns, or, when it returns an option object
// T{…} / &T{…}, that literal (key+":return") and the assignments in T's methods.
func optionStores(p *pkgFiles, fn, key string) [][2]string {
	fd := p.funcDecl(fn)
	if fd == nil || fd.Body == nil {
		return nil
	}
	var out [][2]string
	// (the parameter of the returned closure — `config` — is a local of the option function: ‹0›)
	assigns := func(of *ast.FuncDecl, n ast.Node) {
		ast.Inspect(n, func(m ast.Node) bool {
			if as, ok := m.(*ast.AssignStmt); ok {
				out = append(out, [2]string{key, renumber1(fnormOf(of).text(as))})
			}
			return true
		})
	}
	ast.Inspect(fd.Body, func(n ast.Node) bool {
		if fl, ok := n.(*ast.FuncLit); ok {
			assigns(fd, fl.Body)
			return false
		}
		return true
	})
	lits, txts := returnedLiteralsSrc(fd)
	for i, cl := range lits {
		if cl.Type == nil {
			continue
		}
		ty := src(cl.Type)
		out = append(out, [2]string{key + ":return", txts[i]})
		for _, m := range p.allFuncs() {
			if m.Recv != nil && m.Body != nil && strings.HasPrefix(funcName(m), ty+".") {
				assigns(m, m.Body)
			}
		}
	}
	return out
}

// ---- Table 2: FingerOrder

func genFingerOrder() {
	l := newLean("FingerOrder", "Order of the file-system / process effects and of the returns inside the fingerprint\ncheckers (guard chains as in DryWiring; entries `assign …` are stores into maps and\nappends; `swallowedErrReturns` lists the returns that sit directly under an err\ncondition yet do not return the err, as `return … | condition | source of that err`;\na return that does hand the error on is listed in place as `propagate return …`).")
	fp := loadDir("internal/fingerprint")
	flattenLayout()
	interesting := setOf("os.ReadFile", "os.WriteFile", "os.MkdirAll", "os.Create", "os.Chtimes", "os.Stat",
		"os.Remove", "os.Open", "checker.checksum", "checker.checksumFilePath", "checker.timestampFilePath", // (checker: the receiver)
		"Globs", "glob", "collectKeys", "getMaxTime", "anyFileNewerThan", "time.Now", "normalizeFilename",
		"filepath.Base", "filepath.Rel", "filepath.ToSlash", "filepath.Join", "io.CopyBuffer", "xxh3.New", "(xxh3.New).Sum128", "sort.Strings",
		"binary.Write", "(xxh3.New·1).Sum64", // the second hasher of ChecksumChecker.checksum: the length table
		"execext.ExpandFields", "execext.RunCommand", "(&CheckerConfig{}).statusChecker.IsUpToDate",
		"(&CheckerConfig{}).sourcesChecker.IsUpToDate", "NewSourcesChecker", "NewStatusChecker", "t.Name",
		"strings.TrimSpace", "append", "stateFilename", "checksumFilename", "fmt.Sprintf", "xxh3.HashString",
		"(func·0)") // the closure `touchMarker` of TimestampChecker.IsUpToDate: the first function literal of the body
	var swallowed [][2]string
	for _, f := range [][2]string{
		{"ChecksumChecker.IsUpToDate", "checksumIsUpToDate"},
		{"ChecksumChecker.OnError", "checksumOnError"},
		{"ChecksumChecker.checksum", "checksumSum"},
		{"ChecksumChecker.checksumFilePath", "checksumPath"},
		{"TimestampChecker.IsUpToDate", "timestampIsUpToDate"},
		{"TimestampChecker.OnError", "timestampOnError"},
		{"TimestampChecker.timestampFilePath", "timestampPath"},
		{"stateFilename", "stateFilename"},
		{"checksumFilename", "checksumFilename"},
		{"IsTaskUpToDate", "isTaskUpToDate"},
		{"Globs", "globs"},
		{"glob", "glob"},
		{"collectKeys", "collectKeys"},
		{"StatusChecker.IsUpToDate", "statusIsUpToDate"},
	} {
		var rows [][2]string
		var table, swal []skEntry
		for _, e := range walkSkeleton(fp.funcDecl(f[0]), interesting) {
			switch e.kind {
			case skCall, skReturn, skAssign, skFunc, skDef:
				table = append(table, e)
			case skErrReturn:
				if e.swallow {
					swal = append(swal, e)
				} else {
					// a return that hands the error on: listed IN PLACE (`propagate return …`, guards =
					// `condition | source of that error`), so that its position relative to the writes is pinned
					e.what = "propagate " + e.what
					table = append(table, e)
				}
			}
		}
		renumberEntries(table, swal) // the swallowed returns name the locals as the function's table does
		for _, e := range table {
			rows = append(rows, [2]string{e.what, e.guards})
		}
		for _, e := range swal {
			swallowed = append(swallowed, [2]string{f[0], e.what + " | " + e.guards})
		}
		l.pairList(f[1], rows)
	}
	l.pairList("swallowedErrReturns", swallowed)

	// the NAME hashed with every source file, and WHAT IS FED TO WHICH HASHER, as facts with shared
	// placeholders (renumbered together: ‹0› is the name in both lists).
	//   checksumName: the statement that calls filepath.Rel, the assignment taken when that fails (the
	//     `if` on its error variable), the statement that applies filepath.ToSlash, and the reader
	//     handed to the first io.CopyBuffer;
	//   checksumFeed: in source order every io.CopyBuffer, every binary.Write and every
	//     Write / WriteString on a local hasher, printed whole (an assignment from such a call is printed
	//     as the assignment, so that the byte count of the content copy is the placeholder the length
	//     record uses); then the expression returned with a nil error.
	var nameFacts, feedFacts []string
	if fd := fp.funcDecl("ChecksumChecker.checksum"); fd != nil && fd.Body != nil {
		f := fnormOf(fd)
		rel, fallback, slash, hashed := "", "", "", ""
		var feed []string
		fed := func(ce *ast.CallExpr) bool {
			switch c := src(ce.Fun); {
			case c == "io.CopyBuffer", c == "binary.Write":
				return true
			default:
				if se, ok := ce.Fun.(*ast.SelectorExpr); ok && (se.Sel.Name == "Write" || se.Sel.Name == "WriteString") {
					return f.obj(se.X) != nil
				}
			}
			return false
		}
		// in the feed facts a hasher (a local made by xxh3.New) and the sum taken from one are printed by
		// their ORIGIN also in argument position: `(xxh3.New)` the first, `(xxh3.New·1)` the second
		byOrigin := func(n ast.Node) string {
			return f.textWith(n, func(o *ast.Object) (string, bool) {
				if org := f.origin(o); strings.Contains(org, "xxh3.New") {
					return "(" + org + ")", true
				}
				return "", false
			})
		}
		done := map[*ast.CallExpr]bool{}
		ast.Inspect(fd, func(n ast.Node) bool {
			switch x := n.(type) {
			case *ast.AssignStmt:
				if len(x.Rhs) == 1 {
					if ce, ok := x.Rhs[0].(*ast.CallExpr); ok {
						switch {
						case src(ce.Fun) == "filepath.Rel" && rel == "":
							rel = f.text(x)
						case src(ce.Fun) == "filepath.ToSlash" && slash == "":
							slash = f.text(x)
						case fed(ce):
							done[ce] = true
							feed = append(feed, "feed: "+byOrigin(x))
						}
					}
				}
			case *ast.CallExpr:
				if src(x.Fun) == "io.CopyBuffer" && hashed == "" && len(x.Args) >= 2 {
					hashed = f.text(x.Args[1])
				}
				if fed(x) && !done[x] {
					feed = append(feed, "feed: "+byOrigin(x))
				}
			case *ast.IfStmt:
				if rel != "" && fallback == "" && f.mentionsErr(x.Cond) && len(x.Body.List) == 1 {
					if as, ok := x.Body.List[0].(*ast.AssignStmt); ok {
						fallback = f.text(as)
					}
				}
			case *ast.ReturnStmt:
				if len(x.Results) == 2 && src(x.Results[1]) == "nil" {
					feed = append(feed, "sum: "+byOrigin(x.Results[0]))
				}
			}
			return true
		})
		names := []string{"rel: " + rel, "fallback: " + fallback, "slash: " + slash, "hashed: " + hashed}
		all := renumber(append(names, feed...))
		nameFacts, feedFacts = all[:len(names)], all[len(names):]
	}
	l.strList("checksumName", nameFacts)
	l.strList("checksumFeed", feedFacts)

	// file naming
	re := ""
	for _, fn := range fp.sortedFiles() {
		for _, d := range fp.files[fn].Decls {
			gd, ok := d.(*ast.GenDecl)
			if !ok || gd.Tok != token.VAR {
				continue
			}
			for _, s := range gd.Specs {
				vs := s.(*ast.ValueSpec)
				for i, n := range vs.Names {
					if n.Name != "checksumFilenameRegexp" || i >= len(vs.Values) {
						continue
					}
					if ce, ok := vs.Values[i].(*ast.CallExpr); ok && src(ce.Fun) == "regexp.MustCompile" && len(ce.Args) == 1 {
						re = unquoteLit(ce.Args[0])
					}
				}
			}
		}
	}
	l.str("checksumRegexp", re)
	repl := ""
	if fd := fp.funcDecl("normalizeFilename"); fd != nil {
		ast.Inspect(fd, func(n ast.Node) bool {
			if ce, ok := n.(*ast.CallExpr); ok && len(ce.Args) == 2 {
				if se, ok := ce.Fun.(*ast.SelectorExpr); ok && se.Sel.Name == "ReplaceAllString" {
					repl = unquoteLit(ce.Args[1])
				}
			}
			return true
		})
	}
	l.str("normalizeReplacement", repl)
	for _, f := range [][2]string{{"ChecksumChecker.checksumFilePath", "checksum"}, {"TimestampChecker.timestampFilePath", "timestamp"}} {
		key, dir := "", ""
		if fd := fp.funcDecl(f[0]); fd != nil {
			ast.Inspect(fd, func(n ast.Node) bool {
				ce, ok := n.(*ast.CallExpr)
				if !ok {
					return true
				}
				switch src(ce.Fun) {
				case "normalizeFilename", "stateFilename", "checksumFilename":
					// which function names the state file, and of what: `checksumFilename(t)`, `stateFilename(t.Task)`
					key = src(ce.Fun) + "(" + srcList(ce.Args) + ")"
				case "filepath.Join":
					var lits []string
					for _, a := range ce.Args {
						if bl, ok := a.(*ast.BasicLit); ok && bl.Kind == token.STRING {
							lits = append(lits, unquoteLit(bl))
						}
					}
					dir = strings.Join(lits, "/")
				}
				return true
			})
		}
		l.str(f[1]+"Key", key)
		l.str(f[1]+"Dir", dir)
	}
	l.write()
}

// unquoteLit: the value of a string literal; the source text for anything else.
func unquoteLit(e ast.Expr) string {
	if bl, ok := e.(*ast.BasicLit); ok && bl.Kind == token.STRING {
		if s, err := strconv.Unquote(bl.Value); err == nil {
			return s
		}
	}
	return src(e)
}
