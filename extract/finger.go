package main

import (
	"go/ast"
	"go/token"
	"regexp"
	"sort"
	"strconv"
	"strings"
)

// ---- generic control-flow fingerSkeleton walker
//
// The walker visits a function body in source order and records, for every call whose
// callee text is "interesting" (and for returns / selected assignments), the chain of
// GUARDS under which it is reached:
//
//   if C {…}            body: C                 else: !(C)
//   for … range X {…}   range X
//   for init; c; post   for c   (or "for")
//   case a, b: / default:   (switch, type switch, select)
//   if C {…; return}    every later statement of the same block: !(C)   (also `continue`)
//
// Guards that mention err / err2 / closeErr / isExitError are error plumbing: they stay
// on the stack but are not printed.  A return is classed as error plumbing iff the
// innermost enclosing if-condition mentions err.
//
// Function literals are descended into.  Their body starts from an EMPTY guard stack
// (the guards are those relative to the closure being invoked); the guards in force
// where the literal appears are recorded once as a `func` entry at that position.
//
// Within one statement calls are listed in source (pre-)order, i.e. an outer call
// before the calls in its arguments; the entry for the statement itself (return,
// assign) follows the calls it contains.

type skKind int

const (
	skCall      skKind = iota
	skReturn           // a return that is kept
	skErrReturn        // a return directly under an err condition (guards = "cond | source of err")
	skAssign           // x[i] = v   /   x = append(x, …)
	skFunc             // position of a function literal
	skDef              // assignment to one of the local variables named in skWalker.defs (FULL guard chain, err conditions included)
)

type skEntry struct {
	kind   skKind
	what   string
	guards string
}

type skGuard struct {
	text   string
	hidden bool
}

type skWalker struct {
	interesting func(string) bool
	defs        func(string) bool // local variables whose definitions / assignments are recorded (nil = none)
	guards      []skGuard
	ifConds     []string
	lastErr     string // what was last assigned to err (callee of the call, else the rhs text)
	out         []skEntry
}

var (
	errGuardRe = regexp.MustCompile(`\berr\d*\b|closeErr|isExitError`)
	errIdentRe = regexp.MustCompile(`^err\d*$`)
)

func (w *skWalker) push(g string) {
	w.guards = append(w.guards, skGuard{g, errGuardRe.MatchString(g)})
}

func (w *skWalker) chain() string {
	var gs []string
	for _, g := range w.guards {
		if !g.hidden {
			gs = append(gs, g.text)
		}
	}
	return strings.Join(gs, " && ")
}

// chainAll: the guard chain with the err conditions left in (used for `def` entries: whether a
// verdict variable is cleared under an err condition matters).
func (w *skWalker) chainAll() string {
	var gs []string
	for _, g := range w.guards {
		gs = append(gs, g.text)
	}
	return strings.Join(gs, " && ")
}

func (w *skWalker) emit(k skKind, what, guards string) {
	w.out = append(w.out, skEntry{k, what, guards})
}

func endsInExit(b *ast.BlockStmt) bool {
	if b == nil || len(b.List) == 0 {
		return false
	}
	switch s := b.List[len(b.List)-1].(type) {
	case *ast.ReturnStmt:
		return true
	case *ast.BranchStmt:
		return s.Tok == token.CONTINUE
	}
	return false
}

func (w *skWalker) stmts(list []ast.Stmt) {
	mark := len(w.guards)
	for _, s := range list {
		w.stmt(s)
		if is, ok := s.(*ast.IfStmt); ok && is.Else == nil && endsInExit(is.Body) {
			w.push("!(" + src(is.Cond) + ")")
		}
	}
	w.guards = w.guards[:mark]
}

// guarded runs f with one more guard on the stack.
func (w *skWalker) guarded(g string, f func()) {
	mark := len(w.guards)
	w.push(g)
	f()
	w.guards = w.guards[:mark]
}

func srcList(es []ast.Expr) string {
	ss := make([]string, len(es))
	for i, e := range es {
		ss[i] = src(e)
	}
	return strings.Join(ss, ", ")
}

func (w *skWalker) stmt(s ast.Stmt) {
	switch x := s.(type) {
	case nil:
	case *ast.BlockStmt:
		w.stmts(x.List)
	case *ast.IfStmt:
		w.stmt(x.Init)
		w.expr(x.Cond)
		c := src(x.Cond)
		nIf := len(w.ifConds)
		w.ifConds = append(w.ifConds, c)
		w.guarded(c, func() { w.stmts(x.Body.List) })
		if x.Else != nil {
			w.ifConds[nIf] = "!(" + c + ")"
			w.guarded("!("+c+")", func() { w.stmt(x.Else) })
		}
		w.ifConds = w.ifConds[:nIf]
	case *ast.ForStmt:
		w.stmt(x.Init)
		w.expr(x.Cond)
		g := "for"
		if x.Cond != nil {
			g = "for " + src(x.Cond)
		}
		w.guarded(g, func() {
			w.stmts(x.Body.List)
			w.stmt(x.Post)
		})
	case *ast.RangeStmt:
		w.expr(x.Key)
		w.expr(x.Value)
		w.expr(x.X)
		w.guarded("range "+src(x.X), func() { w.stmts(x.Body.List) })
	case *ast.SwitchStmt:
		w.stmt(x.Init)
		w.expr(x.Tag)
		w.clauses(x.Body)
	case *ast.TypeSwitchStmt:
		w.stmt(x.Init)
		w.stmt(x.Assign)
		w.clauses(x.Body)
	case *ast.SelectStmt:
		w.clauses(x.Body)
	case *ast.ReturnStmt:
		for _, r := range x.Results {
			w.expr(r)
		}
		what := "return"
		res := srcList(x.Results)
		if res != "" {
			what += " " + res
		}
		if n := len(w.ifConds); n > 0 && errGuardRe.MatchString(w.ifConds[n-1]) {
			w.emit(skErrReturn, what, w.ifConds[n-1]+" | "+w.lastErr)
		} else {
			w.emit(skReturn, what, w.chain())
		}
	case *ast.AssignStmt:
		for _, r := range x.Rhs {
			w.expr(r)
		}
		for _, l := range x.Lhs {
			w.expr(l)
		}
		note := false
		for _, l := range x.Lhs {
			if _, ok := l.(*ast.IndexExpr); ok {
				note = true
			}
			if id, ok := l.(*ast.Ident); ok && errIdentRe.MatchString(id.Name) {
				w.lastErr = srcList(x.Rhs)
				if ce, ok := x.Rhs[0].(*ast.CallExpr); ok && len(x.Rhs) == 1 {
					w.lastErr = src(ce.Fun)
				}
			}
		}
		for _, r := range x.Rhs {
			if ce, ok := r.(*ast.CallExpr); ok && src(ce.Fun) == "append" {
				note = true
			}
		}
		if note {
			w.emit(skAssign, "assign "+src(x), w.chain())
		}
		if w.defs != nil {
			for _, l := range x.Lhs {
				if id, ok := l.(*ast.Ident); ok && w.defs(id.Name) {
					w.emit(skDef, "def "+src(x), w.chainAll())
					break
				}
			}
		}
	case *ast.ExprStmt:
		w.expr(x.X)
	case *ast.DeferStmt:
		w.expr(x.Call)
	case *ast.GoStmt:
		w.expr(x.Call)
	case *ast.DeclStmt:
		if gd, ok := x.Decl.(*ast.GenDecl); ok {
			for _, sp := range gd.Specs {
				if vs, ok := sp.(*ast.ValueSpec); ok {
					for _, v := range vs.Values {
						w.expr(v)
					}
				}
			}
		}
	case *ast.IncDecStmt:
		w.expr(x.X)
	case *ast.SendStmt:
		w.expr(x.Chan)
		w.expr(x.Value)
	case *ast.LabeledStmt:
		w.stmt(x.Stmt)
	}
}

func (w *skWalker) clauses(body *ast.BlockStmt) {
	if body == nil {
		return
	}
	for _, c := range body.List {
		switch cc := c.(type) {
		case *ast.CaseClause:
			g := "default"
			if cc.List != nil {
				for _, e := range cc.List {
					w.expr(e)
				}
				g = "case " + srcList(cc.List)
			}
			w.guarded(g, func() { w.stmts(cc.Body) })
		case *ast.CommClause:
			g := "default"
			if cc.Comm != nil {
				w.stmt(cc.Comm)
				g = "case " + src(cc.Comm)
			}
			w.guarded(g, func() { w.stmts(cc.Body) })
		}
	}
}

func (w *skWalker) expr(e ast.Expr) {
	if e == nil {
		return
	}
	ast.Inspect(e, func(n ast.Node) bool {
		switch x := n.(type) {
		case *ast.FuncLit:
			w.emit(skFunc, "func", w.chain())
			g, ic := w.guards, w.ifConds
			w.guards, w.ifConds = nil, nil
			w.stmts(x.Body.List)
			w.guards, w.ifConds = g, ic
			return false
		case *ast.CallExpr:
			if c := src(x.Fun); w.interesting(c) {
				w.emit(skCall, c, w.chain())
			}
		}
		return true
	})
}

func walkSkeleton(fd *ast.FuncDecl, interesting func(string) bool) []skEntry {
	return walkSkeletonDefs(fd, interesting, nil)
}

func walkSkeletonDefs(fd *ast.FuncDecl, interesting, defs func(string) bool) []skEntry {
	w := &skWalker{interesting: interesting, defs: defs}
	if fd != nil && fd.Body != nil {
		w.stmts(fd.Body.List)
	}
	return w.out
}

// fingerSkeleton: the interesting calls and the kept returns of a function, each with its
// guard chain, in source order.
func fingerSkeleton(fd *ast.FuncDecl, interesting func(callee string) bool) [][2]string {
	var out [][2]string
	for _, e := range walkSkeleton(fd, interesting) {
		if e.kind == skCall || e.kind == skReturn || e.kind == skFunc {
			out = append(out, [2]string{e.what, e.guards})
		}
	}
	return out
}

// flattenLayout forgets the line structure of every file parsed so far.  go/printer
// keeps the line breaks of the original inside argument lists and composite literals
// (`f( a, b, )` after whitespace normalisation); with a single-line line table src()
// depends on the token sequence only, so re-wrapping an expression does not change
// the tables.  Nothing in the extractor reports line numbers.
func flattenLayout() {
	fset.Iterate(func(f *token.File) bool {
		f.SetLines([]int{0})
		return true
	})
}

func setOf(xs ...string) func(string) bool {
	m := map[string]bool{}
	for _, x := range xs {
		m[x] = true
	}
	return func(s string) bool { return m[s] }
}

// ---- Table 1: DryWiring

func genDryWiring() {
	l := newLean("DryWiring", "How the dry-run bit travels: Dry/Status flags to Executor.Dry, Executor.Dry to the\nfingerprint checkers, and the guards under which the side-effecting calls of the\nexecutor are reached (guard chains; err plumbing omitted; closure bodies start from an\nempty chain, the chain at the closure itself is the `func` entry).")
	root := loadDir(".")
	fp := loadDir("internal/fingerprint")
	loadDir("internal/flags")
	flattenLayout()

	// calls: who passes what as the dry bit
	qualified := setOf("fingerprint.WithDry", "task.WithDry",
		"fingerprint.NewSourcesChecker", "fingerprint.NewChecksumChecker", "fingerprint.NewTimestampChecker")
	local := setOf("WithDry", "NewSourcesChecker", "NewChecksumChecker", "NewTimestampChecker")
	var calls [][2]string
	for _, d := range []struct {
		rel   string
		local bool
	}{{".", false}, {"internal/flags", false}, {"internal/fingerprint", true}} {
		p := loadDir(d.rel)
		for _, fn := range p.sortedFiles() {
			if fn == "checker_mock.go" {
				continue
			}
			for _, decl := range p.files[fn].Decls {
				encl := "<toplevel>"
				if fd, ok := decl.(*ast.FuncDecl); ok {
					encl = funcName(fd)
				}
				ast.Inspect(decl, func(n ast.Node) bool {
					ce, ok := n.(*ast.CallExpr)
					if !ok || len(ce.Args) == 0 {
						return true
					}
					c := src(ce.Fun)
					if qualified(c) || (d.local && local(c)) {
						calls = append(calls, [2]string{encl + ":" + c, src(ce.Args[len(ce.Args)-1])})
					}
					return true
				})
			}
		}
	}
	sort.SliceStable(calls, func(i, j int) bool { return calls[i][0] < calls[j][0] })
	l.pairList("calls", calls)

	// fields: where the bit is stored
	var fields [][2]string
	for _, ctor := range []string{"NewChecksumChecker", "NewTimestampChecker"} {
		fd := fp.funcDecl(ctor)
		if fd == nil {
			continue
		}
		for _, cl := range returnedLiterals(fd) {
			for _, e := range cl.Elts {
				if kv, ok := e.(*ast.KeyValueExpr); ok && src(kv.Key) == "dry" {
					fields = append(fields, [2]string{ctor + ".dry", src(kv.Value)})
				}
			}
		}
	}
	fields = append(fields, optionStores(fp, "WithDry", "WithDry")...)
	fields = append(fields, optionStores(root, "WithDry", "task.WithDry")...)
	l.pairList("fields", fields)

	// guards
	interesting := setOf("e.Logger.Prompt", "e.mkdir", "os.MkdirAll", "e.runCommand", "e.runDeferred",
		"e.statusOnError", "checker.OnError", "execext.RunCommand", "fingerprint.IsTaskUpToDate",
		"e.areTaskPreconditionsMet", "e.runDeps", "e.RunTask", "e.ToEditorOutput", "e.Status",
		"summary.PrintTask", "e.splitRegularAndWatchCalls")
	var guards [][2]string
	for _, fn := range []string{"Executor.RunTask", "Executor.runCommand", "Executor.mkdir", "Executor.Status",
		"Executor.statusOnError", "Executor.ToEditorOutput", "Executor.ListTasks", "Executor.Run"} {
		for _, e := range walkSkeleton(root.funcDecl(fn), interesting) {
			if e.kind == skCall || e.kind == skFunc {
				guards = append(guards, [2]string{fn + ":" + e.what, e.guards})
			}
		}
	}
	l.pairList("guards", guards)

	// the two conditions of RunTask the model quotes (operands of && / || sorted; the local
	// that holds the result of areTaskPreconditionsMet printed as <preconditions>)
	skip, upToDate := "", ""
	precondVar := map[string]string{}
	if fd := root.funcDecl("Executor.RunTask"); fd != nil {
		ast.Inspect(fd, func(n ast.Node) bool {
			if as, ok := n.(*ast.AssignStmt); ok && len(as.Rhs) == 1 && len(as.Lhs) >= 1 && contains(src(as.Rhs[0]), "areTaskPreconditionsMet(") {
				precondVar[src(as.Lhs[0])] = "<preconditions>"
			}
			return true
		})
	}
	if fd := root.funcDecl("Executor.RunTask"); fd != nil {
		ast.Inspect(fd, func(n ast.Node) bool {
			switch x := n.(type) {
			case *ast.AssignStmt:
				if x.Tok == token.DEFINE && len(x.Lhs) == 1 && len(x.Rhs) == 1 && src(x.Lhs[0]) == "skipFingerprinting" {
					skip = canonBool(x.Rhs[0], nil)
				}
			case *ast.IfStmt:
				if n := len(x.Body.List); n > 0 && upToDate == "" {
					if rs, ok := x.Body.List[n-1].(*ast.ReturnStmt); ok && srcList(rs.Results) == "nil" && mentionsLiteral(x.Body, "is up to date") {
						upToDate = canonBool(x.Cond, precondVar)
					}
				}
			}
			return true
		})
	}
	l.str("skipFingerprinting", skip)
	l.str("upToDateReturn", upToDate)
	l.write()
}

func mentionsLiteral(n ast.Node, sub string) bool {
	found := false
	ast.Inspect(n, func(m ast.Node) bool {
		if bl, ok := m.(*ast.BasicLit); ok && bl.Kind == token.STRING && strings.Contains(bl.Value, sub) {
			found = true
		}
		return !found
	})
	return found
}

// returnedLiterals: the composite literals (T{…} or &T{…}) returned by the function
// itself (not by closures inside it).
func returnedLiterals(fd *ast.FuncDecl) []*ast.CompositeLit {
	out, _ := returnedLiteralsSrc(fd)
	return out
}

// returnedLiteralsSrc also gives the text of each returned expression (with its &).
func returnedLiteralsSrc(fd *ast.FuncDecl) ([]*ast.CompositeLit, []string) {
	var out []*ast.CompositeLit
	var txt []string
	ast.Inspect(fd.Body, func(n ast.Node) bool {
		switch x := n.(type) {
		case *ast.FuncLit:
			return false
		case *ast.ReturnStmt:
			for _, r := range x.Results {
				t := src(r)
				if u, ok := r.(*ast.UnaryExpr); ok && u.Op == token.AND {
					r = u.X
				}
				if cl, ok := r.(*ast.CompositeLit); ok {
					out = append(out, cl)
					txt = append(txt, t)
				}
			}
		}
		return true
	})
	return out, txt
}

// optionStores describes what a functional option does with its argument: the
// assignments in the closure it returns, or, when it returns an option object
// T{…} / &T{…}, that literal (key+":return") and the assignments in T's methods.
func optionStores(p *pkgFiles, fn, key string) [][2]string {
	fd := p.funcDecl(fn)
	if fd == nil || fd.Body == nil {
		return nil
	}
	var out [][2]string
	assigns := func(n ast.Node) {
		ast.Inspect(n, func(m ast.Node) bool {
			if as, ok := m.(*ast.AssignStmt); ok {
				out = append(out, [2]string{key, src(as)})
			}
			return true
		})
	}
	ast.Inspect(fd.Body, func(n ast.Node) bool {
		if fl, ok := n.(*ast.FuncLit); ok {
			assigns(fl.Body)
			return false
		}
		return true
	})
	lits, txts := returnedLiteralsSrc(fd)
	for i, cl := range lits {
		if cl.Type == nil {
			continue
		}
		ty := src(cl.Type)
		out = append(out, [2]string{key + ":return", txts[i]})
		for _, m := range p.allFuncs() {
			if m.Recv != nil && m.Body != nil && strings.HasPrefix(funcName(m), ty+".") {
				assigns(m.Body)
			}
		}
	}
	return out
}

// ---- Table 2: FingerOrder

func genFingerOrder() {
	l := newLean("FingerOrder", "Order of the file-system / process effects and of the returns inside the fingerprint\ncheckers (guard chains as in DryWiring; entries `assign …` are stores into maps and\nappends; `swallowedErrReturns` lists the returns that sit directly under an err\ncondition yet do not return the err, as `return … | condition | source of that err`).")
	fp := loadDir("internal/fingerprint")
	flattenLayout()
	interesting := setOf("os.ReadFile", "os.WriteFile", "os.MkdirAll", "os.Create", "os.Chtimes", "os.Stat",
		"os.Remove", "os.Open", "checker.checksum", "checker.checksumFilePath", "checker.timestampFilePath",
		"Globs", "glob", "collectKeys", "getMaxTime", "anyFileNewerThan", "time.Now", "normalizeFilename",
		"filepath.Base", "filepath.Rel", "filepath.ToSlash", "filepath.Join", "io.CopyBuffer", "xxh3.New", "h.Sum128", "sort.Strings",
		"execext.ExpandFields", "execext.RunCommand", "config.statusChecker.IsUpToDate",
		"config.sourcesChecker.IsUpToDate", "NewSourcesChecker", "NewStatusChecker", "t.Name",
		"strings.TrimSpace", "append", "stateFilename", "fmt.Sprintf", "xxh3.HashString", "touchMarker")
	var swallowed [][2]string
	for _, f := range [][2]string{
		{"ChecksumChecker.IsUpToDate", "checksumIsUpToDate"},
		{"ChecksumChecker.OnError", "checksumOnError"},
		{"ChecksumChecker.checksum", "checksumSum"},
		{"ChecksumChecker.checksumFilePath", "checksumPath"},
		{"TimestampChecker.IsUpToDate", "timestampIsUpToDate"},
		{"TimestampChecker.OnError", "timestampOnError"},
		{"TimestampChecker.timestampFilePath", "timestampPath"},
		{"stateFilename", "stateFilename"},
		{"IsTaskUpToDate", "isTaskUpToDate"},
		{"Globs", "globs"},
		{"glob", "glob"},
		{"collectKeys", "collectKeys"},
		{"StatusChecker.IsUpToDate", "statusIsUpToDate"},
	} {
		var rows [][2]string
		// the verdict variables of TimestampChecker.IsUpToDate: where they are defined / cleared
		var defs func(string) bool
		switch f[0] {
		case "TimestampChecker.IsUpToDate":
			defs = setOf("upToDate", "generatesExist", "shouldUpdate", "markerExists")
		case "stateFilename":
			defs = setOf("normalized")
		}
		for _, e := range walkSkeletonDefs(fp.funcDecl(f[0]), interesting, defs) {
			switch e.kind {
			case skCall, skReturn, skAssign, skFunc, skDef:
				rows = append(rows, [2]string{e.what, e.guards})
			case skErrReturn:
				if !errGuardRe.MatchString(strings.TrimPrefix(e.what, "return")) {
					swallowed = append(swallowed, [2]string{f[0], e.what + " | " + e.guards})
				}
			}
		}
		l.pairList(f[1], rows)
	}
	l.pairList("swallowedErrReturns", swallowed)

	// the NAME hashed with every source file: arguments of filepath.Rel, the assignment taken
	// when it fails, and the reader handed to the first io.CopyBuffer
	nameRel, nameFallback, nameHashed := "", "", ""
	if fd := fp.funcDecl("ChecksumChecker.checksum"); fd != nil {
		ast.Inspect(fd, func(n ast.Node) bool {
			switch x := n.(type) {
			case *ast.CallExpr:
				switch src(x.Fun) {
				case "filepath.Rel":
					nameRel = srcList(x.Args)
				case "io.CopyBuffer":
					if nameHashed == "" && len(x.Args) >= 2 {
						nameHashed = src(x.Args[1])
					}
				}
			case *ast.IfStmt:
				if nameRel != "" && nameFallback == "" && errGuardRe.MatchString(src(x.Cond)) && len(x.Body.List) == 1 {
					if as, ok := x.Body.List[0].(*ast.AssignStmt); ok {
						nameFallback = src(as)
					}
				}
			}
			return true
		})
	}
	l.str("checksumNameRel", nameRel)
	l.str("checksumNameFallback", nameFallback)
	l.str("checksumNameHashed", nameHashed)

	// file naming
	re := ""
	for _, fn := range fp.sortedFiles() {
		for _, d := range fp.files[fn].Decls {
			gd, ok := d.(*ast.GenDecl)
			if !ok || gd.Tok != token.VAR {
				continue
			}
			for _, s := range gd.Specs {
				vs := s.(*ast.ValueSpec)
				for i, n := range vs.Names {
					if n.Name != "checksumFilenameRegexp" || i >= len(vs.Values) {
						continue
					}
					if ce, ok := vs.Values[i].(*ast.CallExpr); ok && src(ce.Fun) == "regexp.MustCompile" && len(ce.Args) == 1 {
						re = unquoteLit(ce.Args[0])
					}
				}
			}
		}
	}
	l.str("checksumRegexp", re)
	repl := ""
	if fd := fp.funcDecl("normalizeFilename"); fd != nil {
		ast.Inspect(fd, func(n ast.Node) bool {
			if ce, ok := n.(*ast.CallExpr); ok && len(ce.Args) == 2 {
				if se, ok := ce.Fun.(*ast.SelectorExpr); ok && se.Sel.Name == "ReplaceAllString" {
					repl = unquoteLit(ce.Args[1])
				}
			}
			return true
		})
	}
	l.str("normalizeReplacement", repl)
	for _, f := range [][2]string{{"ChecksumChecker.checksumFilePath", "checksum"}, {"TimestampChecker.timestampFilePath", "timestamp"}} {
		key, dir := "", ""
		if fd := fp.funcDecl(f[0]); fd != nil {
			ast.Inspect(fd, func(n ast.Node) bool {
				ce, ok := n.(*ast.CallExpr)
				if !ok {
					return true
				}
				switch src(ce.Fun) {
				case "normalizeFilename", "stateFilename":
					// which function names the state file, and of what: `stateFilename(t.Name())`
					key = src(ce.Fun) + "(" + srcList(ce.Args) + ")"
				case "filepath.Join":
					var lits []string
					for _, a := range ce.Args {
						if bl, ok := a.(*ast.BasicLit); ok && bl.Kind == token.STRING {
							lits = append(lits, unquoteLit(bl))
						}
					}
					dir = strings.Join(lits, "/")
				}
				return true
			})
		}
		l.str(f[1]+"Key", key)
		l.str(f[1]+"Dir", dir)
	}
	l.write()
}

// unquoteLit: the value of a string literal; the source text for anything else.
func unquoteLit(e ast.Expr) string {
	if bl, ok := e.(*ast.BasicLit); ok && bl.Kind == token.STRING {
		if s, err := strconv.Unquote(bl.Value); err == nil {
			return s
		}
	}
	return src(e)
}

// canonBool prints a boolean expression with the operands of every && / || chain sorted and
// the given identifiers renamed, so that reordering operands or renaming a local changes nothing.
func canonBool(e ast.Expr, rename map[string]string) string {
	switch x := e.(type) {
	case *ast.ParenExpr:
		return "(" + canonBool(x.X, rename) + ")"
	case *ast.BinaryExpr:
		if x.Op == token.LAND || x.Op == token.LOR {
			var ops []string
			var collect func(e ast.Expr)
			collect = func(e ast.Expr) {
				if b, ok := e.(*ast.BinaryExpr); ok && b.Op == x.Op {
					collect(b.X)
					collect(b.Y)
					return
				}
				ops = append(ops, canonBool(e, rename))
			}
			collect(x)
			sort.Strings(ops)
			return strings.Join(ops, " "+x.Op.String()+" ")
		}
	case *ast.Ident:
		if r, ok := rename[x.Name]; ok {
			return r
		}
	}
	return src(e)
}
