package main

import (
	"bufio"
	"fmt"
	"go/ast"
	"go/parser"
	"go/token"
	"os"
	"path/filepath"
	"strconv"
	"strings"
	"unicode"
)

// genQuoteTab (C19): the tables the Quote model reads or is compared with.
//   - printRanges: unicode.IsPrint of the toolchain the harness is built with, for
//     runes 0x80..0x10FFFF (the model decides ASCII itself);
//   - shellChars / keywords: the rune cases of the first switch in mvdan.cc/sh
//     syntax.Quote that set shellChars, and the words IsKeyword accepts, read from the
//     module version the tree under test requires;
//   - quoting call sites of the tree under test: what args.Get, the shellQuote template
//     function and splitVar call.
func genQuoteTab() {
	l := newLean("QuoteTab", "C19: unicode.IsPrint ranges (>= 0x80), syntax.Quote's shell characters and keywords (mvdan.cc/sh as required by go.mod), quoting call sites.")

	// ---- unicode.IsPrint
	var rs [][2]int
	start := -1
	for r := 0x80; r <= unicode.MaxRune+1; r++ {
		p := r <= unicode.MaxRune && unicode.IsPrint(rune(r))
		if p && start < 0 {
			start = r
		}
		if !p && start >= 0 {
			rs = append(rs, [2]int{start, r - 1})
			start = -1
		}
	}
	fmt.Fprintf(&l.b, "def unicodeVersion : String := %s\n\n", strconv.Quote(unicode.Version))
	l.b.WriteString("def printRanges : List (Nat × Nat) := [")
	for i, x := range rs {
		if i > 0 {
			l.b.WriteString(",")
		}
		if i%8 == 0 {
			l.b.WriteString("\n  ")
		} else {
			l.b.WriteString(" ")
		}
		fmt.Fprintf(&l.b, "(%d, %d)", x[0], x[1])
	}
	l.b.WriteString("]\n\n")

	// ---- mvdan.cc/sh/v3/syntax
	ver := modVersion("mvdan.cc/sh/v3")
	l.str("shVersion", ver)
	dir := filepath.Join(modCache(), "mvdan.cc", "sh", "v3@"+ver, "syntax")
	var shellChars []int
	var keywords []string
	if fd := parseFunc(filepath.Join(dir, "quote.go"), "Quote"); fd != nil {
		// the first switch over `r` whose clause assigns shellChars = true
		ast.Inspect(fd.Body, func(n ast.Node) bool {
			cc, ok := n.(*ast.CaseClause)
			if !ok || len(shellChars) > 0 {
				return true
			}
			sets := false
			for _, st := range cc.Body {
				if as, ok := st.(*ast.AssignStmt); ok && len(as.Lhs) == 1 && src(as.Lhs[0]) == "shellChars" && src(as.Rhs[0]) == "true" {
					sets = true
				}
			}
			if !sets {
				return true
			}
			for _, e := range cc.List {
				if bl, ok := e.(*ast.BasicLit); ok && bl.Kind == token.CHAR {
					if v, _, _, err := strconv.UnquoteChar(bl.Value[1:len(bl.Value)-1], '\''); err == nil {
						shellChars = append(shellChars, int(v))
					}
				}
			}
			return true
		})
	}
	if fd := parseFunc(filepath.Join(dir, "parser.go"), "IsKeyword"); fd != nil {
		ast.Inspect(fd.Body, func(n ast.Node) bool {
			cc, ok := n.(*ast.CaseClause)
			if !ok {
				return true
			}
			ret := false
			for _, st := range cc.Body {
				if r, ok := st.(*ast.ReturnStmt); ok && len(r.Results) == 1 && src(r.Results[0]) == "true" {
					ret = true
				}
			}
			if ret {
				for _, e := range cc.List {
					if bl, ok := e.(*ast.BasicLit); ok && bl.Kind == token.STRING {
						if s, err := strconv.Unquote(bl.Value); err == nil {
							keywords = append(keywords, s)
						}
					}
				}
			}
			return true
		})
	}
	ns := make([]string, len(shellChars))
	for i, c := range shellChars {
		ns[i] = strconv.Itoa(c)
	}
	fmt.Fprintf(&l.b, "def shellChars : List Nat := [%s]\n\n", strings.Join(ns, ", "))
	kb := make([]string, len(keywords))
	for i, k := range keywords {
		bs := make([]string, len(k))
		for j := 0; j < len(k); j++ {
			bs[j] = strconv.Itoa(int(k[j]))
		}
		kb[i] = "[" + strings.Join(bs, ", ") + "]"
	}
	fmt.Fprintf(&l.b, "/-- IsKeyword's words as byte lists -/\ndef keywords : List (List Nat) := [%s]\n\n", strings.Join(kb, ", "))

	// ---- call sites in the tree under test
	var quoteCalls [][2]string
	for _, site := range [][3]string{{"args", "Get", "args.Get"}, {"internal/templater", "init", "templater.shellQuote"}} {
		p := loadDir(site[0])
		for _, fd := range p.allFuncs() {
			if funcName(fd) != site[1] || fd.Body == nil {
				continue
			}
			ast.Inspect(fd.Body, func(n ast.Node) bool {
				if ce, ok := n.(*ast.CallExpr); ok && src(ce.Fun) == "syntax.Quote" {
					quoteCalls = append(quoteCalls, [2]string{site[2], src(ce)})
				}
				return true
			})
		}
	}
	l.pairList("quoteCalls", quoteCalls)
	// aliases of shellQuote: taskFuncs["x"] = taskFuncs["shellQuote"]
	var aliases []string
	for _, fd := range loadDir("internal/templater").allFuncs() {
		if funcName(fd) != "init" || fd.Body == nil {
			continue
		}
		ast.Inspect(fd.Body, func(n ast.Node) bool {
			as, ok := n.(*ast.AssignStmt)
			if ok && len(as.Lhs) == 1 && len(as.Rhs) == 1 && src(as.Rhs[0]) == `taskFuncs["shellQuote"]` {
				if ix, ok := as.Lhs[0].(*ast.IndexExpr); ok {
					if s, err := strconv.Unquote(src(ix.Index)); err == nil {
						aliases = append(aliases, s)
					}
				}
			}
			return true
		})
	}
	l.strList("shellQuoteAliases", aliases)
	// splitVar's split call
	split := ""
	if fd := loadDir("args").funcDecl("splitVar"); fd != nil {
		ast.Inspect(fd.Body, func(n ast.Node) bool {
			if ce, ok := n.(*ast.CallExpr); ok && strings.HasPrefix(src(ce.Fun), "strings.") && split == "" {
				split = src(ce)
			}
			return true
		})
	}
	l.str("splitVarCall", split)
	l.write()
}

func parseFunc(path, name string) *ast.FuncDecl {
	f, err := parser.ParseFile(fset, path, nil, 0)
	if err != nil {
		fatal("quotetab: %v (is the module cache of the tree under test available?)", err)
	}
	for _, d := range f.Decls {
		if fd, ok := d.(*ast.FuncDecl); ok && fd.Recv == nil && fd.Name.Name == name {
			return fd
		}
	}
	return nil
}

func modVersion(mod string) string {
	f, err := os.Open(filepath.Join(repo, "go.mod"))
	if err != nil {
		fatal("%v", err)
	}
	defer f.Close()
	sc := bufio.NewScanner(f)
	for sc.Scan() {
		fs := strings.Fields(sc.Text())
		for i, x := range fs {
			if x == mod && i+1 < len(fs) && strings.HasPrefix(fs[i+1], "v") {
				return fs[i+1]
			}
		}
	}
	fatal("quotetab: %s not required by go.mod", mod)
	return ""
}

func modCache() string {
	if v := os.Getenv("GOMODCACHE"); v != "" {
		return v
	}
	if v := os.Getenv("GOPATH"); v != "" {
		return filepath.Join(filepath.SplitList(v)[0], "pkg", "mod")
	}
	h, _ := os.UserHomeDir()
	return filepath.Join(h, "go", "pkg", "mod")
}
