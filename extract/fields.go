package main

import (
	"go/ast"
)

// genFields: field inventories of the ast structs, the keys set by each DeepCopy
// literal, by compiledTask's `new := ast.Task{…}` literal (plus fields assigned to
// `new.` afterwards) and by Tasks.Merge.
func genFields() {
	l := newLean("Fields", "Struct field inventories and the key sets of the copy / compile literals.")
	p := loadDir("taskfile/ast")
	for _, ty := range []string{"Task", "Cmd", "Dep", "Include", "For", "Var", "Precondition", "Platform", "Requires", "Location", "Glob", "VarsWithValidation"} {
		fs := p.structFields(ty)
		if fs == nil {
			continue
		}
		l.strList("fields"+ty, fs)
		if fd := p.funcDecl(ty + ".DeepCopy"); fd != nil {
			l.strList("deepCopy"+ty, literalKeys(fd, ty))
		}
	}
	root := loadDir(".")
	if fd := root.funcDecl("Executor.compiledTask"); fd != nil {
		keys := literalKeys(fd, "ast.Task")
		// fields assigned afterwards: new.X = / new.X = append(
		seen := map[string]bool{}
		for _, k := range keys {
			seen[k] = true
		}
		var later []string
		ast.Inspect(fd, func(n ast.Node) bool {
			as, ok := n.(*ast.AssignStmt)
			if !ok {
				return true
			}
			for _, lhs := range as.Lhs {
				if se, ok := lhs.(*ast.SelectorExpr); ok {
					if id, ok := se.X.(*ast.Ident); ok && id.Name == "new" {
						if !contains(joinS(later), "|"+se.Sel.Name+"|") {
							later = append(later, se.Sel.Name)
						}
					}
				}
			}
			return true
		})
		l.strList("compiledTaskLiteral", keys)
		l.strList("compiledTaskAssignedLater", later)
	}
	l.write()
}

func joinS(xs []string) string {
	s := "|"
	for _, x := range xs {
		s += x + "|"
	}
	return s
}

// literalKeys returns the keys of the first composite literal of type `ty` (or &ty)
// found in the function.
func literalKeys(fd *ast.FuncDecl, ty string) []string {
	var keys []string
	found := false
	ast.Inspect(fd, func(n ast.Node) bool {
		if found {
			return false
		}
		cl, ok := n.(*ast.CompositeLit)
		if !ok || cl.Type == nil || src(cl.Type) != ty {
			return true
		}
		found = true
		for _, e := range cl.Elts {
			if kv, ok := e.(*ast.KeyValueExpr); ok {
				keys = append(keys, src(kv.Key))
			}
		}
		return false
	})
	return keys
}
