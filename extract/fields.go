package main

import (
	"go/ast"
)

// genFields: field inventories of the ast structs, the keys set by each DeepCopy
// literal, by compiledTask's `new := ast.Task{…}` literal (plus fields assigned to
// `new.` afterwards) and by Tasks.Merge.
func genFields() {
	l := newLean("Fields", "Struct field inventories and the key sets of the copy / compile literals.")
	p := loadDir("taskfile/ast")
	for _, ty := range []string{"Task", "Cmd", "Dep", "Include", "For", "Var", "Precondition", "Platform", "Requires", "Location", "Glob", "VarsWithValidation"} {
		fs := p.structFields(ty)
		if fs == nil {
			continue
		}
		l.strList("fields"+ty, fs)
		if fd := p.funcDecl(ty + ".DeepCopy"); fd != nil {
			l.strList("deepCopy"+ty, literalKeys(fd, ty))
			l.tripleList("deepCopySources"+ty, literalSources(fd, ty))
		}
	}
	root := loadDir(".")
	if fd := root.funcDecl("Executor.compiledTask"); fd != nil {
		keys := literalKeys(fd, "ast.Task")
		// fields assigned afterwards: new.X = / new.X = append(
		seen := map[string]bool{}
		for _, k := range keys {
			seen[k] = true
		}
		var later []string
		ast.Inspect(fd, func(n ast.Node) bool {
			as, ok := n.(*ast.AssignStmt)
			if !ok {
				return true
			}
			for _, lhs := range as.Lhs {
				if se, ok := lhs.(*ast.SelectorExpr); ok {
					if id, ok := se.X.(*ast.Ident); ok && id.Name == "new" {
						if !contains(joinS(later), "|"+se.Sel.Name+"|") {
							later = append(later, se.Sel.Name)
						}
					}
				}
			}
			return true
		})
		l.strList("compiledTaskLiteral", keys)
		l.strList("compiledTaskAssignedLater", later)
	}
	l.write()
}

// literalSources: for the first composite literal of type `ty` in fd, every (key, kind, source
// field): how the value of the key is obtained — "field" (x.F), "deepcopy.<Fn>" (deepcopy.Fn(x.F)),
// "DeepCopy" (x.F.DeepCopy()), anything else "other" with the printed expression as source.  The
// copy is faithful only if every key is taken from the field OF THE SAME NAME.
func literalSources(fd *ast.FuncDecl, ty string) [][3]string {
	var out [][3]string
	found := false
	selField := func(e ast.Expr) (string, bool) {
		if se, ok := e.(*ast.SelectorExpr); ok {
			if _, ok := se.X.(*ast.Ident); ok {
				return se.Sel.Name, true
			}
		}
		return "", false
	}
	ast.Inspect(fd, func(n ast.Node) bool {
		if found {
			return false
		}
		cl, ok := n.(*ast.CompositeLit)
		if !ok || cl.Type == nil || src(cl.Type) != ty {
			return true
		}
		found = true
		for _, e := range cl.Elts {
			kv, ok := e.(*ast.KeyValueExpr)
			if !ok {
				continue
			}
			key := src(kv.Key)
			if f, ok := selField(kv.Value); ok {
				out = append(out, [3]string{key, "field", f})
				continue
			}
			if c, ok := kv.Value.(*ast.CallExpr); ok {
				if se, ok := c.Fun.(*ast.SelectorExpr); ok {
					if id, ok := se.X.(*ast.Ident); ok && id.Name == "deepcopy" && len(c.Args) == 1 {
						if f, ok := selField(c.Args[0]); ok {
							out = append(out, [3]string{key, "deepcopy." + se.Sel.Name, f})
							continue
						}
					}
					if se.Sel.Name == "DeepCopy" && len(c.Args) == 0 {
						if f, ok := selField(se.X); ok {
							out = append(out, [3]string{key, "DeepCopy", f})
							continue
						}
					}
				}
			}
			out = append(out, [3]string{key, "other", src(kv.Value)})
		}
		return false
	})
	return out
}

func joinS(xs []string) string {
	s := "|"
	for _, x := range xs {
		s += x + "|"
	}
	return s
}

// literalKeys returns the keys of the first composite literal of type `ty` (or &ty)
// found in the function.
func literalKeys(fd *ast.FuncDecl, ty string) []string {
	var keys []string
	found := false
	ast.Inspect(fd, func(n ast.Node) bool {
		if found {
			return false
		}
		cl, ok := n.(*ast.CompositeLit)
		if !ok || cl.Type == nil || src(cl.Type) != ty {
			return true
		}
		found = true
		for _, e := range cl.Elts {
			if kv, ok := e.(*ast.KeyValueExpr); ok {
				keys = append(keys, src(kv.Key))
			}
		}
		return false
	})
	return keys
}
