package main

import (
	"go/ast"
	"go/token"
	"strconv"
)

// genCodes: exit-code constants (errors/errors.go, evaluated with iota), the code each
// error type's Code() returns, MaximumTaskCall and its comparison, and the order of the
// type tests in cmd/task/task.go:main.
func genCodes() {
	l := newLean("Codes", "Exit codes: errors/errors.go constants, Code() methods, main()'s dispatch, MaximumTaskCall.")
	p := loadDir("errors")
	consts := map[string]int{}
	var ordered []kv
	for _, fn := range p.sortedFiles() {
		for _, d := range p.files[fn].Decls {
			gd, ok := d.(*ast.GenDecl)
			if !ok || gd.Tok != token.CONST {
				continue
			}
			var lastExpr ast.Expr
			for i, s := range gd.Specs {
				vs := s.(*ast.ValueSpec)
				if len(vs.Values) > 0 {
					lastExpr = vs.Values[0]
				}
				if lastExpr == nil {
					continue
				}
				v, ok := evalConst(lastExpr, i)
				if !ok {
					continue
				}
				for _, n := range vs.Names {
					consts[n.Name] = v
					ordered = append(ordered, kv{n.Name, v})
				}
			}
		}
	}
	l.natPairs("consts", ordered)
	// Code() methods
	var codes []kv
	var exitCodeUsesStatus bool
	for _, fd := range p.allFuncs() {
		if fd.Recv == nil || fd.Body == nil {
			continue
		}
		if fd.Name.Name == "Code" && len(fd.Body.List) == 1 {
			if rs, ok := fd.Body.List[0].(*ast.ReturnStmt); ok && len(rs.Results) == 1 {
				if id, ok := rs.Results[0].(*ast.Ident); ok {
					if v, ok := consts[id.Name]; ok {
						codes = append(codes, kv{funcName(fd)[:len(funcName(fd))-len(".Code")], v})
					}
				}
			}
		}
		if funcName(fd) == "TaskRunError.TaskExitCode" {
			s := src(fd.Body)
			exitCodeUsesStatus = contains(s, "interp.IsExitStatus(err.Err)") && contains(s, "return int(c)") && contains(s, "return err.Code()")
		}
	}
	l.natPairs("errorCodes", codes)
	l.bool("taskExitCodeIsCommandStatus", exitCodeUsesStatus)

	// MaximumTaskCall and the comparison in RunTask
	root := loadDir(".")
	max := -1
	for _, fn := range root.sortedFiles() {
		for _, d := range root.files[fn].Decls {
			gd, ok := d.(*ast.GenDecl)
			if !ok || gd.Tok != token.CONST {
				continue
			}
			for _, s := range gd.Specs {
				vs := s.(*ast.ValueSpec)
				for i, n := range vs.Names {
					if n.Name == "MaximumTaskCall" && i < len(vs.Values) {
						if bl, ok := vs.Values[i].(*ast.BasicLit); ok {
							max, _ = strconv.Atoi(bl.Value)
						}
					}
				}
			}
		}
	}
	if max < 0 {
		fatal("MaximumTaskCall not found")
	}
	l.nat("maximumTaskCall", max)
	cmpOp := ""
	if fd := root.funcDecl("Executor.RunTask"); fd != nil {
		ast.Inspect(fd, func(n ast.Node) bool {
			be, ok := n.(*ast.BinaryExpr)
			if ok && contains(src(be.Y), "MaximumTaskCall") && contains(src(be.X), "atomic.AddInt32") {
				cmpOp = be.Op.String()
			}
			return true
		})
	}
	l.str("maxCallCompare", cmpOp)

	// main(): order of the type tests and what each exits with
	var dispatch [][2]string
	cmd := loadDir("cmd/task")
	if fd := cmd.funcDecl("main"); fd != nil {
		ast.Inspect(fd, func(n ast.Node) bool {
			is, ok := n.(*ast.IfStmt)
			if !ok || is.Init == nil {
				return true
			}
			as, ok := is.Init.(*ast.AssignStmt)
			if !ok || len(as.Rhs) != 1 {
				return true
			}
			ta, ok := as.Rhs[0].(*ast.TypeAssertExpr)
			if !ok {
				return true
			}
			exit := ""
			ast.Inspect(is.Body, func(m ast.Node) bool {
				if ce, ok := m.(*ast.CallExpr); ok && src(ce.Fun) == "os.Exit" && len(ce.Args) == 1 {
					exit = src(ce.Args[0])
				}
				return true
			})
			dispatch = append(dispatch, [2]string{src(ta.Type) + " | " + src(is.Cond), exit})
			return false
		})
		// the trailing os.Exit of the error branch and of success
		var tail []string
		ast.Inspect(fd, func(n ast.Node) bool {
			if ce, ok := n.(*ast.CallExpr); ok && src(ce.Fun) == "os.Exit" && len(ce.Args) == 1 {
				tail = append(tail, src(ce.Args[0]))
			}
			return true
		})
		for _, t := range tail {
			if t == "errors.CodeUnknown" || t == "errors.CodeOk" {
				dispatch = append(dispatch, [2]string{"fallthrough", t})
			}
		}
	}
	l.pairList("mainDispatch", dispatch)
	l.write()
}

func contains(s, sub string) bool { return len(sub) == 0 || (len(s) >= len(sub) && indexOf(s, sub) >= 0) }
func indexOf(s, sub string) int {
	for i := 0; i+len(sub) <= len(s); i++ {
		if s[i:i+len(sub)] == sub {
			return i
		}
	}
	return -1
}

// evalConst evaluates `iota`, `iota + k`, integer literals, and `int = …` forms.
func evalConst(e ast.Expr, iota int) (int, bool) {
	switch x := e.(type) {
	case *ast.Ident:
		if x.Name == "iota" {
			return iota, true
		}
	case *ast.BasicLit:
		if x.Kind == token.INT {
			v, err := strconv.Atoi(x.Value)
			return v, err == nil
		}
	case *ast.BinaryExpr:
		a, ok1 := evalConst(x.X, iota)
		b, ok2 := evalConst(x.Y, iota)
		if ok1 && ok2 {
			switch x.Op {
			case token.ADD:
				return a + b, true
			case token.SUB:
				return a - b, true
			case token.MUL:
				return a * b, true
			}
		}
	case *ast.ParenExpr:
		return evalConst(x.X, iota)
	}
	return 0, false
}
