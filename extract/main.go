// Fact extractor: re-derives from the tree under test the structural facts the Lean
// model depends on and writes them as Lean tables (TaskModel/Gen/*.lean).  Standard
// library only (go/parser, go/ast, go/printer).  Facts are keyed by function and by
// normalised expression text, never by line number, so reformatting or moving code
// does not disturb them.
package main

import (
	"bytes"
	"flag"
	"fmt"
	"go/ast"
	"go/parser"
	"go/printer"
	"go/token"
	"os"
	"path/filepath"
	"sort"
	"strconv"
	"strings"
)

var (
	repo string
	out  string
	fset = token.NewFileSet()
)

type pkgFiles struct {
	files map[string]*ast.File // base name → file
}

var pkgCache = map[string]*pkgFiles{}

// loadDir parses every non-test .go file of a directory (build tags ignored except
// that files guarded by `verif` only are skipped: they are instrumentation).
func loadDir(rel string) *pkgFiles {
	if p, ok := pkgCache[rel]; ok {
		return p
	}
	dir := filepath.Join(repo, rel)
	ents, err := os.ReadDir(dir)
	if err != nil {
		fatal("read %s: %v", dir, err)
	}
	p := &pkgFiles{files: map[string]*ast.File{}}
	for _, e := range ents {
		n := e.Name()
		if e.IsDir() || !strings.HasSuffix(n, ".go") || strings.HasSuffix(n, "_test.go") {
			continue
		}
		src, err := os.ReadFile(filepath.Join(dir, n))
		if err != nil {
			fatal("%v", err)
		}
		if bytes.Contains(src, []byte("//go:build verif")) {
			continue
		}
		f, err := parser.ParseFile(fset, filepath.Join(rel, n), src, parser.ParseComments)
		if err != nil {
			fatal("parse %s: %v", n, err)
		}
		p.files[n] = f
	}
	pkgCache[rel] = p
	return p
}

func fatal(f string, a ...any) {
	fmt.Fprintf(os.Stderr, "extract: "+f+"\n", a...)
	os.Exit(1)
}

func src(n ast.Node) string {
	var b bytes.Buffer
	printer.Fprint(&b, fset, n)
	return strings.Join(strings.Fields(b.String()), " ")
}

// localsOf: the names declared INSIDE fd's body (:=, var, range, parameters of function
// literals), each mapped to a positional placeholder ‹k› (k = order of first declaration).
// Receivers, parameters, fields and package-level names are not in the map.
func localsOf(fd *ast.FuncDecl) map[string]string {
	m := map[string]string{}
	if fd == nil || fd.Body == nil {
		return m
	}
	add := func(e ast.Expr) {
		if id, ok := e.(*ast.Ident); ok && id.Name != "_" {
			if _, seen := m[id.Name]; !seen {
				m[id.Name] = fmt.Sprintf("‹%d›", len(m))
			}
		}
	}
	ast.Inspect(fd.Body, func(n ast.Node) bool {
		switch x := n.(type) {
		case *ast.AssignStmt:
			if x.Tok == token.DEFINE {
				for _, l := range x.Lhs {
					add(l)
				}
			}
		case *ast.RangeStmt:
			if x.Tok == token.DEFINE {
				if x.Key != nil {
					add(x.Key)
				}
				if x.Value != nil {
					add(x.Value)
				}
			}
		case *ast.ValueSpec:
			for _, id := range x.Names {
				add(id)
			}
		case *ast.FuncLit:
			if x.Type.Params != nil {
				for _, f := range x.Type.Params.List {
					for _, id := range f.Names {
						add(id)
					}
				}
			}
		}
		return true
	})
	return m
}

// srcL prints n like src, with the locals of its function replaced by their placeholders:
// renaming a local variable does not change the fact.  Field selectors and composite-literal
// keys are left alone.
func srcL(n ast.Node, locals map[string]string) string {
	if len(locals) == 0 {
		return src(n)
	}
	type saved struct {
		id   *ast.Ident
		name string
	}
	var sv []saved
	var walk func(n ast.Node)
	walk = func(n ast.Node) {
		ast.Inspect(n, func(m ast.Node) bool {
			switch x := m.(type) {
			case *ast.SelectorExpr:
				walk(x.X)
				return false
			case *ast.KeyValueExpr:
				if _, ok := x.Key.(*ast.Ident); !ok {
					walk(x.Key)
				}
				walk(x.Value)
				return false
			case *ast.Ident:
				if ph, ok := locals[x.Name]; ok {
					sv = append(sv, saved{x, x.Name})
					x.Name = ph
				}
			}
			return true
		})
	}
	walk(n)
	out := src(n)
	for _, s := range sv {
		s.id.Name = s.name
	}
	return out
}

// funcDecl finds a function or method ("Recv.Name" or "Name") in a package dir.
func (p *pkgFiles) funcDecl(name string) *ast.FuncDecl {
	for _, fn := range p.sortedFiles() {
		for _, d := range p.files[fn].Decls {
			fd, ok := d.(*ast.FuncDecl)
			if !ok {
				continue
			}
			if funcName(fd) == name {
				return fd
			}
		}
	}
	return nil
}

func funcName(fd *ast.FuncDecl) string {
	if fd.Recv != nil && len(fd.Recv.List) > 0 {
		t := fd.Recv.List[0].Type
		if s, ok := t.(*ast.StarExpr); ok {
			t = s.X
		}
		if ix, ok := t.(*ast.IndexExpr); ok {
			t = ix.X
		}
		return src(t) + "." + fd.Name.Name
	}
	return fd.Name.Name
}

func (p *pkgFiles) sortedFiles() []string {
	var ns []string
	for n := range p.files {
		ns = append(ns, n)
	}
	sort.Strings(ns)
	return ns
}

func (p *pkgFiles) allFuncs() []*ast.FuncDecl {
	var out []*ast.FuncDecl
	for _, fn := range p.sortedFiles() {
		for _, d := range p.files[fn].Decls {
			if fd, ok := d.(*ast.FuncDecl); ok {
				out = append(out, fd)
			}
		}
	}
	return out
}

func (p *pkgFiles) structFields(name string) []string {
	for _, fn := range p.sortedFiles() {
		for _, d := range p.files[fn].Decls {
			gd, ok := d.(*ast.GenDecl)
			if !ok || gd.Tok != token.TYPE {
				continue
			}
			for _, s := range gd.Specs {
				ts := s.(*ast.TypeSpec)
				if ts.Name.Name != name {
					continue
				}
				st, ok := ts.Type.(*ast.StructType)
				if !ok {
					return nil
				}
				var out []string
				for _, f := range st.Fields.List {
					for _, n := range f.Names {
						out = append(out, n.Name)
					}
				}
				return out
			}
		}
	}
	return nil
}

// ---- Lean output helpers

type leanFile struct {
	name string
	b    strings.Builder
}

func newLean(name, doc string) *leanFile {
	l := &leanFile{name: name}
	fmt.Fprintf(&l.b, "/- GENERATED by /verif/extract from the tree under test. Do not edit.\n%s -/\nnamespace TaskModel.Gen.%s\n\n", doc, name)
	return l
}

func (l *leanFile) strList(def string, xs []string) {
	qs := make([]string, len(xs))
	for i, x := range xs {
		qs[i] = strconv.Quote(x)
	}
	fmt.Fprintf(&l.b, "def %s : List String := [%s]\n\n", def, strings.Join(qs, ", "))
}

func (l *leanFile) pairList(def string, xs [][2]string) {
	qs := make([]string, len(xs))
	for i, x := range xs {
		qs[i] = "(" + strconv.Quote(x[0]) + ", " + strconv.Quote(x[1]) + ")"
	}
	fmt.Fprintf(&l.b, "def %s : List (String × String) := [%s]\n\n", def, strings.Join(qs, ",\n  "))
}

func (l *leanFile) tripleList(def string, xs [][3]string) {
	qs := make([]string, len(xs))
	for i, x := range xs {
		qs[i] = "(" + strconv.Quote(x[0]) + ", " + strconv.Quote(x[1]) + ", " + strconv.Quote(x[2]) + ")"
	}
	fmt.Fprintf(&l.b, "def %s : List (String × String × String) := [%s]\n\n", def, strings.Join(qs, ",\n  "))
}

func (l *leanFile) natPairs(def string, xs []kv) {
	qs := make([]string, len(xs))
	for i, x := range xs {
		qs[i] = fmt.Sprintf("(%s, %d)", strconv.Quote(x.k), x.v)
	}
	fmt.Fprintf(&l.b, "def %s : List (String × Nat) := [%s]\n\n", def, strings.Join(qs, ",\n  "))
}

func (l *leanFile) nat(def string, v int) { fmt.Fprintf(&l.b, "def %s : Nat := %d\n\n", def, v) }
func (l *leanFile) bool(def string, v bool) {
	fmt.Fprintf(&l.b, "def %s : Bool := %v\n\n", def, v)
}
func (l *leanFile) str(def string, v string) {
	fmt.Fprintf(&l.b, "def %s : String := %s\n\n", def, strconv.Quote(v))
}

func (l *leanFile) write() {
	fmt.Fprintf(&l.b, "end TaskModel.Gen.%s\n", l.name)
	if err := os.WriteFile(filepath.Join(out, l.name+".lean"), []byte(l.b.String()), 0o644); err != nil {
		fatal("%v", err)
	}
}

type kv struct {
	k string
	v int
}

func main() {
	flag.StringVar(&repo, "repo", "/repo", "")
	flag.StringVar(&out, "out", ".", "")
	flag.Parse()
	os.MkdirAll(out, 0o755)
	genCodes()
	genFields()
	genOutput()
	genRemote()
	genQuoteTab()
	genVarLayers()
	genLoad()
	genNondetSites()
	genDryWiring()
	genFingerOrder()
	genPhases()
	genResolveOrder()
}
