package main

import (
	"go/ast"
	"strings"
)

// genPhases: for the executor functions the Sched model mirrors, the ordered skeleton of the
// calls that matter — instrumentation points (verifhook.Ev/Enter/Child/Adopt/Pause with their
// event name), slot operations, dependency / command / deferred execution, guards — together
// with whether each sits in a `defer`.  This pins WHERE the event log is written relative to
// the actions it reports (the trusted half of the executor correspondence).
func genPhases() {
	l := newLean("Phases", "Ordered call skeletons of Run / RunTask / runDeps / runDeferred / runCommand / startExecution (hooks and actions).")
	root := loadDir(".")
	interesting := func(s string) string {
		switch {
		case strings.HasPrefix(s, "verifhook.Ev(ctx, "):
			a := s[strings.Index(s, ", ")+2:]
			a = strings.TrimSuffix(a, ")")
			if i := strings.Index(a, ","); i >= 0 {
				a = a[:i]
			}
			return "hook:" + strings.Trim(a, "\"")
		case strings.HasPrefix(s, "verifhook.Enter("):
			return "hook:enter"
		case strings.HasPrefix(s, "verifhook.Child("):
			return "hook:child"
		case strings.HasPrefix(s, "verifhook.Adopt("):
			return "hook:adopt"
		case strings.HasPrefix(s, "verifhook.Pause("):
			return "hook:pause"
		case strings.HasPrefix(s, "verifhook.RegisterTop("):
			return "hook:registerTop"
		case strings.HasPrefix(s, "e.acquireConcurrencyLimit("):
			return "acquire"
		case strings.HasPrefix(s, "e.releaseConcurrencyLimit("):
			return "releaseSlot"
		case s == "release()":
			return "release()"
		case s == "reacquire()":
			return "reacquire()"
		case strings.HasPrefix(s, "e.startExecution("):
			return "startExecution"
		case strings.HasPrefix(s, "e.runDeps("):
			return "runDeps"
		case strings.HasPrefix(s, "e.areTaskPreconditionsMet("):
			return "preconditions"
		case strings.HasPrefix(s, "fingerprint.IsTaskUpToDate("):
			return "isUpToDate"
		case strings.HasPrefix(s, "e.Logger.Prompt("):
			return "prompt"
		case strings.HasPrefix(s, "e.mkdir("):
			return "mkdir"
		case strings.HasPrefix(s, "e.runCommand("):
			return "runCommand"
		case strings.HasPrefix(s, "e.runDeferred("):
			return "runDeferred"
		case strings.HasPrefix(s, "e.statusOnError("):
			return "statusOnError"
		case strings.HasPrefix(s, "e.RunTask("):
			return "RunTask"
		case strings.HasPrefix(s, "execext.RunCommand("):
			return "execCommand"
		case strings.HasPrefix(s, "closer("):
			return "closeOutput"
		case s == "g.Go()":
			return "g.Go"
		case s == "g.Wait()":
			return "g.Wait"
		case strings.HasPrefix(s, "errgroup.WithContext("):
			return "errgroup"
		case strings.HasPrefix(s, "context.WithCancel("):
			if s == "context.WithCancel(context.Background())" {
				return "ctxWithCancel:background"
			}
			if s == "context.WithCancel(context.WithoutCancel(ctx))" {
				// the task's context without its cancellation: values (the enclosing execution) are kept
				return "ctxWithCancel:withoutCancel"
			}
			return "ctxWithCancel:other"
		case s == "cancel()":
			return "cancel()"
		case strings.HasPrefix(s, "close(_."):
			return "close:" + s[8:len(s)-1]
		case strings.HasPrefix(s, "e.executionHashesMutex."):
			return "hashMutex." + s[len("e.executionHashesMutex."):len(s)-2]
		case strings.HasPrefix(s, "e.GetHash("):
			return "getHash"
		case strings.HasPrefix(s, "context.WithValue("):
			return "ctxWithValue"
		case strings.HasPrefix(s, "ctx.Value("):
			return "ctxValue"
		case strings.HasSuffix(s, ".waitsFor()"):
			return "waitsFor"
		case s == "execute()":
			return "execute"
		case strings.HasPrefix(s, "atomic.AddInt32("):
			return "countCall"
		case strings.HasPrefix(s, "e.FastCompiledTask("):
			return "fastCompile"
		case strings.HasPrefix(s, "e.CompiledTask("):
			return "compile"
		case strings.HasPrefix(s, "e.areTaskRequiredVarsSet("):
			return "requiredVars"
		case strings.HasPrefix(s, "e.areTaskRequiredVarsAllowedValuesSet("):
			return "allowedValues"
		case strings.HasPrefix(s, "shouldRunOnCurrentPlatform("):
			return "platform"
		case strings.HasPrefix(s, "e.GetTask("):
			return "getTask"
		}
		return ""
	}
	for _, fn := range []string{"Executor.Run", "Executor.RunTask", "Executor.runDeps", "Executor.runDeferred", "Executor.runCommand", "Executor.startExecution"} {
		fd := root.funcDecl(fn)
		var seq []string
		if fd != nil {
			// local names are normalised by where their value comes from, so renaming a local is not a change
			origin := map[string]string{}
			if fd.Type.Params != nil {
				for _, f := range fd.Type.Params.List {
					if _, ok := f.Type.(*ast.FuncType); ok {
						for _, n := range f.Names {
							origin[n.Name] = "execute"
						}
					}
				}
			}
			ast.Inspect(fd.Body, func(m ast.Node) bool {
				as, ok := m.(*ast.AssignStmt)
				if !ok || len(as.Rhs) != 1 {
					return true
				}
				c, ok := as.Rhs[0].(*ast.CallExpr)
				if !ok {
					return true
				}
				name := func(i int) string {
					if i < len(as.Lhs) {
						if id, ok := as.Lhs[i].(*ast.Ident); ok {
							return id.Name
						}
					}
					return ""
				}
				switch src(c.Fun) {
				case "e.acquireConcurrencyLimit":
					origin[name(0)] = "release"
				case "e.releaseConcurrencyLimit":
					origin[name(0)] = "reacquire"
				case "context.WithCancel":
					origin[name(1)] = "cancel"
				case "errgroup.WithContext":
					origin[name(0)] = "g"
				}
				return true
			})
			norm := func(c *ast.CallExpr) string {
				switch f := c.Fun.(type) {
				case *ast.Ident:
					if o, ok := origin[f.Name]; ok {
						if o == "execute" {
							return "execute()"
						}
						return o + "()"
					}
					if f.Name == "close" && len(c.Args) == 1 {
						if se, ok := c.Args[0].(*ast.SelectorExpr); ok {
							return "close(" + "_." + se.Sel.Name + ")"
						}
					}
				case *ast.SelectorExpr:
					if id, ok := f.X.(*ast.Ident); ok && origin[id.Name] == "g" {
						return "g." + f.Sel.Name + "()"
					}
					if f.Sel.Name == "waitsFor" {
						return "_.waitsFor()"
					}
					if id, ok := f.X.(*ast.Ident); ok && id.Name == "verifhook" && f.Sel.Name == "Ev" && len(c.Args) >= 2 {
						return "verifhook.Ev(ctx, " + src(c.Args[1]) + ")"
					}
				}
				return src(c)
			}
			var walk func(n ast.Node, deferred bool)
			walk = func(n ast.Node, deferred bool) {
				ast.Inspect(n, func(m ast.Node) bool {
					switch x := m.(type) {
					case *ast.DeferStmt:
						if k := interesting(norm(x.Call)); k != "" {
							seq = append(seq, "defer "+k)
						} else {
							walk(x.Call, true)
						}
						return false
					case *ast.UnaryExpr:
						if x.Op.String() == "<-" {
							if se, ok := x.X.(*ast.SelectorExpr); ok {
								seq = append(seq, "recv:_."+se.Sel.Name)
							}
						}
					case *ast.FuncLit:
						// a closure: its body is bracketed, so that what happens inside the function handed to
						// startExecution / g.Go can be told from what happens after the call returned
						seq = append(seq, "closure{")
						walk(x.Body, deferred)
						seq = append(seq, "}closure")
						return false
					case *ast.CompositeLit:
						// error values built here: `&errors.TaskRunError{…}` (the wrapping `main` turns into 201 /
						// the command's status) and literals of a package-local type (the private failure marker)
						switch t := x.Type.(type) {
						case *ast.SelectorExpr:
							if t.Sel.Name == "TaskRunError" {
								seq = append(seq, "wrap:TaskRunError")
							}
						case *ast.Ident:
							// (an empty literal `T{}` is a context key, not a value that is built here)
							if len(x.Elts) > 0 {
								seq = append(seq, "mark:local")
							}
						}
					case *ast.AssignStmt:
						// `p.waits = append(p.waits, …)`: an edge of the wait-for relation between executions
						for _, lh := range x.Lhs {
							if se, ok := lh.(*ast.SelectorExpr); ok && se.Sel.Name == "waits" {
								seq = append(seq, "addWait")
							}
						}
					case *ast.CallExpr:
						if k := interesting(norm(x)); k != "" {
							if deferred {
								k = "defer " + k
							}
							seq = append(seq, k)
							// arguments may contain further interesting calls (e.g. closures): keep walking
						}
					}
					return true
				})
			}
			walk(fd.Body, false)
		}
		l.strList(strings.ReplaceAll(strings.TrimPrefix(fn, "Executor."), ".", "_"), seq)
	}
	l.write()
}
